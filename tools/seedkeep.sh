#!/bin/bash
# usage: tools/seedkeep.sh <seed name e.g. C12a> <PROP> <needs> <ran/caught-by>
N=$1; P=$2; NEEDS=$3; RAN=$4
D=/verif/seeded/$N; mkdir -p $D
cp /tmp/seed/$N/SEED/patch.diff $D/patch.diff; cp /tmp/seed/$N/SEED/demo.py $D/demo.py; cp /tmp/seed/$N/SEED/notes.md $D/notes.md 2>/dev/null
python3 - "$N" "$P" "$NEEDS" "$RAN" <<'PY'
import json, sys
n, p, needs, ran = sys.argv[1:5]
json.dump({"seed": n, "breaks_property": p, "needs_to_manifest": needs, "what_i_ran": ran,
           "origin": "independent sub-agent given only the property text and a scratch worktree",
           "confirmed": "demo exits 0 on HEAD and non-zero with patch; baseline stable_pass unchanged (tools/seedeval.sh)"},
          open("/verif/seeded/%s/meta.json" % n, "w"), indent=1)
PY
ls $D
