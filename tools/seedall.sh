#!/bin/bash
# Re-runs every kept seed (seeded/<id>/) against the property's current check: apply to /repo, run quick check, revert.
# Prints one line per seed; a seed is "caught" when the check exits 1.
cd /verif
for d in seeded/*/; do
  n=$(basename $d); p=$(python3 -c "import json;print(json.load(open('$d/meta.json'))['breaks_property'])")
  git -C /repo apply --whitespace=nowarn $d/patch.diff 2>/dev/null || { echo "$n $p PATCH-DOES-NOT-APPLY"; continue; }
  ./check $p --tier ${1:-quick} --no-evidence > /tmp/seedall-$n.log 2>&1; rc=$?
  git -C /repo checkout -- .
  echo "$n $p check_exit=$rc $( [ $rc = 1 ] && echo caught || echo MISSED )"
done
