#!/bin/bash
# Re-runs every kept seed (seeded/<id>/) against the property's current check.  Works on a scratch worktree of /repo
# (VERIF_REPO) so that /repo itself stays untouched: apply, run the quick check, revert.  One line per seed; a seed is
# "caught" when the check exits 1.   usage: tools/seedall.sh [tier] [seed-name-pattern ...]
TIER=${1:-quick}
cd "$(dirname "$0")/.." && V=$(pwd)      # /verif, or a snapshot of it (vp run)
WT=${SEEDALL_WT:-/tmp/seedall-repo}
git -C /repo worktree remove --force $WT 2>/dev/null
git -C /repo worktree add -q $WT HEAD || exit 9
shift   # further arguments: seed-name patterns (default: all)
[ $# -gt 0 ] || set -- ""
for pat in "$@"; do
for d in seeded/*${pat}*/; do
  n=$(basename $d); p=$(python3 -c "import json;print(json.load(open('$d/meta.json'))['breaks_property'])")
  git -C $WT apply -C1 --whitespace=nowarn $V/$d/patch.diff 2>/dev/null || { echo "$n $p PATCH-DOES-NOT-APPLY"; git -C $WT checkout -- .; continue; }
  VERIF_REPO=$WT ./check $p --tier $TIER --no-evidence > $WT.$n.log 2>&1; rc=$?
  git -C $WT checkout -- .
  echo "$n $p check_exit=$rc $( [ $rc = 1 ] && echo caught || echo MISSED )"
done
done
git -C /repo worktree remove --force $WT
rm -f $WT.*.log
