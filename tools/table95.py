#!/usr/bin/env python3
"""Refreshes the last column of the DESIGN.md 9.5 table (quick paths / wall) from evidence/<id>.json."""
import json, os, re
HERE = os.path.dirname(os.path.dirname(os.path.abspath(__file__)))
p = os.path.join(HERE, "DESIGN.md")
s = open(p).read()
for i in range(1, 21):
    pid = "C%02d" % i
    f = os.path.join(HERE, "evidence", pid + ".json")
    if not os.path.exists(f):
        continue
    d = json.load(open(f))
    if d.get("tier") != "quick":
        continue
    paths = d["coverage"]["states"]
    cell = "%s / %d s" % (("%.1f k" % (paths / 1000.0)) if paths >= 1000 else str(paths), round(d["wall_s"]))
    s, n = re.subn(r"(?m)^(\| %s \|.*\| )[^|]*? / [^|]*? s \|$" % pid, lambda m: m.group(1) + cell + " |", s)
    print(pid, cell, "updated" if n else "ROW NOT FOUND")
open(p, "w").write(s)
