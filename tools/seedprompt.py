#!/usr/bin/env python3
import json, sys
pid, variant = sys.argv[1], (sys.argv[2] if len(sys.argv) > 2 else "a")
wt = "/tmp/seed/%s%s" % (pid, variant)
hint = sys.argv[3] if len(sys.argv) > 3 else ""
p = [json.loads(l) for l in open("/verif/properties.jsonl") if json.loads(l)["id"] == pid][0]
print(f"""You are helping to evaluate a verification effort for the Python BDD framework `behave` by seeding a realistic, subtle bug.

Your own scratch git worktree of the behave repository is at: {wt}
Work ONLY inside that directory. Never read, write or run anything under /repo or /verif (they are off limits), and do not create other worktrees.
Python to use: /venv/bin/python (behave's dependencies are installed there; when your current directory is {wt}, `import behave` resolves to the worktree's package).

THE PROPERTY (id {pid}) - "{p['title']}":
{p['statement']}

It is meant to hold: {p['quantifier']['text']}

YOUR TASK: make a small change to the behave package source (under {wt}/behave/) that BREAKS this property, while
  (1) everything still imports/compiles, and
  (2) the existing test suite still passes exactly as before: run
      cd {wt} && /venv/bin/python -m pytest -q -p no:cacheprovider --timeout=900 --continue-on-collection-errors -q 2>&1 | tail -5
      BEFORE your change (note the result: 13 tests in tests/unit/test_configuration.py fail already, 1655 pass) and AFTER it; the set of passing/failing tests must be identical.
The change must be realistic (the kind of slip a maintainer could make in a refactoring or 'optimisation': an off-by-one, a dropped condition, a reordered branch, a wrong variable, state not reset, two sites that each look fine alone) and SUBTLE: it must need something specific to manifest - a particular interleaving or order of events, a fault at a particular point, a multi-step sequence of operations, an unusual input or configuration, or two cooperating sites - and NOT be something that ordinary everyday use would expose at once. Do not add new files to the package, do not touch tests, do not special-case magic strings, do not break behaviour unrelated to the property. {hint}

DELIVERABLES (create the directory {wt}/SEED/):
  * {wt}/SEED/patch.diff  - output of `git diff` for your change to behave/ (only package source files)
  * {wt}/SEED/demo.py     - a small self-contained program (run as: cd {wt} && /venv/bin/python SEED/demo.py) using behave's public API or command line that exits 0 on the ORIGINAL code and exits non-zero (with a short message saying what went wrong) WITH your change. It should demonstrate the property violation at the level of observable behaviour (statuses, verdict/exit code, reports, selected scenarios, ...).
  * {wt}/SEED/notes.md    - 5-10 lines: what you changed, why it breaks the property, and exactly what is needed for it to manifest.
IMPORTANT: never use `git stash` (the stash is shared between worktrees of other people working in parallel and gets mixed up); to test the original code use `git diff > SEED/patch.diff && git apply -R SEED/patch.diff`, and `git apply SEED/patch.diff` to re-apply. Verify yourself: demo passes on the original code and fails with the change applied; suite results identical. Leave the change APPLIED in the worktree when you finish.
In your final answer, report: the one-paragraph description, what it needs to manifest, and the test-suite tail before/after.""")
