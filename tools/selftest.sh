#!/bin/bash
# Engine self-test (DESIGN 2.6): the repository's own pytest baseline under the import-hook instrumentation
# (base rewrite is/not/in/isinstance on every behave module) must pass exactly the BASELINE stable_pass set.
HERE="$(cd "$(dirname "$0")/.." && pwd)"
[ -f "$HERE/.deps/z3/__init__.py" ] || "$HERE/setup.sh" >/dev/null
mkdir -p "$HERE/scratch" && cat > "$HERE/scratch/sxplugin.py" <<'PY'
import sys
sys.path.insert(0, "HERE"); sys.path.insert(0, "HERE/.deps")
import symx
symx.install()
PY
sed -i "s#HERE#$HERE#g" "$HERE/scratch/sxplugin.py"
PYTHONPATH="$HERE/scratch:$HERE:$HERE/.deps" "$HERE/tools/baseline.py" -p sxplugin
