#!/bin/bash
# usage: tools/seedtry.sh <seed e.g. C12a> <PROP> [extra ./check args]   - quick loop while strengthening a check:
# patch a scratch worktree of /repo HEAD with the seed, run the check against it (VERIF_REPO), remove the worktree.
N=$1; P=$2; shift 2
SRC=/tmp/seed/$N/SEED; [ -f $SRC/patch.diff ] || SRC=/verif/seeded/$N
WT=/tmp/seedtry-$N-$$
git -C /repo worktree add -q $WT HEAD || exit 9
git -C $WT apply -C1 --whitespace=nowarn $SRC/patch.diff || { echo "PATCH DOES NOT APPLY"; git -C /repo worktree remove --force $WT; exit 9; }
cd /verif && VERIF_REPO=$WT ./check $P --no-evidence "$@" 2>&1 | grep -v "^WARNING conda\|^VIOLATION" | cut -c1-${COLS:-400} | tail -${LINES_:-4}
git -C /repo worktree remove --force $WT
