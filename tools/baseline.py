#!/venv/bin/python
"""Run /repo's baseline suite (command from /root/.vp/BASELINE.json) and compare with its stable_pass list.
Exit 0 iff every stable_pass test passed."""
import json, subprocess, sys, tempfile, os, xml.etree.ElementTree as ET
b = json.load(open("/root/.vp/BASELINE.json"))
extra = sys.argv[1:]
with tempfile.TemporaryDirectory() as d:
    x = os.path.join(d, "r.xml")
    cmd = b["cmd"].replace("<file>", x)
    if extra:
        cmd = cmd.replace("-m pytest", "-m pytest " + " ".join(extra))
    env = dict(os.environ, PYTHONDONTWRITEBYTECODE="1")
    p = subprocess.run(cmd, shell=True, capture_output=True, text=True, env=env)
    passed = set()
    for tc in ET.parse(x).getroot().iter("testcase"):
        if not any(c.tag in ("failure", "error", "skipped") for c in tc):
            passed.add("%s::%s" % (tc.get("classname"), tc.get("name")))
missing = [t for t in b["stable_pass"] if t not in passed]
print("stable_pass=%d passed_now=%d missing=%d" % (len(b["stable_pass"]), len(passed), len(missing)))
for t in missing[:20]:
    print("  MISSING", t)
sys.exit(1 if missing else 0)
