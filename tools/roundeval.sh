#!/bin/bash
# usage: tools/roundeval.sh <suffix e.g. h> [ID ...]   - evaluates the seeds /tmp/seed/<ID><suffix> of one round, one after the other
S=$1; shift
IDS=${@:-C01 C02 C03 C04 C05 C06 C07 C08 C09 C10 C11 C12 C13 C14 C15 C16 C17 C18 C19 C20}
for p in $IDS; do
  [ -f /tmp/seed/$p$S/SEED/patch.diff ] || { echo "SUMMARY seed=$p$S NOT-READY"; continue; }
  /verif/tools/seedeval.sh $p$S $p 2>&1 | grep -v "^WARNING conda" | grep "SUMMARY\|BASELINE\|^ M\|does not\|violation" | cut -c1-330 \
    | grep -v "BASELINE stable_pass=1655 passed=1655 failed=13 missing=0" | awk '/violation/{n++; if(n>2) next} /SUMMARY/{n=0} {print}'
done
