#!/bin/bash
# usage: tools/mut.sh <PROP> <file-in-repo> <sed-expr> [extra check args]   - apply, run check, revert
P=$1; F=$2; E=$3; shift 3
cd /repo && cp "$F" /tmp/mut.orig && sed -i "$E" "$F" && if git diff --quiet; then echo "MUTATION DID NOT APPLY"; exit 9; fi
git diff | grep '^[-+]' | grep -v '^[-+][-+]' | head -6
cd /verif && ./check $P --no-evidence "$@" 2>&1 | grep -v "^WARNING conda" | tail -6
cd /repo && git checkout -- . 
