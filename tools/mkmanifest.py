#!/usr/bin/env python3
"""Regenerates MANIFEST.json from the per-property table below (single place to edit)."""
import json, os
HERE = os.path.dirname(os.path.dirname(os.path.abspath(__file__)))
props = [json.loads(l)["id"] for l in open(os.path.join(HERE, "properties.jsonl"))]
TRUST = ("Trusted: CPython, z3 5.1, the symx rewrite+proxy layer (every explored path's witness is re-run on the "
         "uninstrumented package and compared; closure query; reachability twins), stdlib/third-party code run "
         "concretely, the short reference specs (RunSpec/StatusSpec/...). Bounds per tier are stated in the evidence file.")
CLAIMED = {
 "C01": ("symbolic execution of the real ModelRunner/model run() code (symx: AST-instrumented behave on z3 proxies); step "
         "outcomes and hook-fault position are unbounded z3 integers, flags/selection z3 Booleans; oracle: ground-truth "
         "events + RunSpec reference, both directions", "DESIGN.md 4/C01",
         "symbolic execution of real code + z3 (bounded model checking over tree shapes)"),
 "C02": ("symbolic execution of Scenario.run/Step.run/find_match/Match.run with per-step outcomes over Z, UNDEF/conversion "
         "Booleans, dry-run/wip/continue flags, sync+async, and re-runs with an independent second outcome vector; oracle: "
         "RunSpec call log and status table", "DESIGN.md 4/C02",
         "symbolic execution of real code + z3 (bounded model checking over scenario shapes)"),
 "C03": ("whole-enum solver queries for the Status classification; compute_status kernels on N symbolic child statuses "
         "checked against the StatusSpec relation by z3 under the reachability precondition R; the same relation on every "
         "tree reached by stage-1 runs (stop/abort/never-started/de-selected/hook errors) and on re-runs", "DESIGN.md 4/C03",
         "symbolic execution of real code + z3 (enum-symbolic kernels, bounded trees)"),
 "C12": ("self-composition on the real runner: the same tree is run fault-free and with the k-th hook call raising (k an "
         "unbounded z3 integer, so every hook call site of the run is an injection point); nested-order against a reference log, "
         "pairing, containment, --stop, dry-run, selection", "DESIGN.md 4/C12",
         "symbolic execution of real code + z3 (fault position symbolic, bounded trees)"),
 "C13": ("exhaustive bounded operation histories on the real Context/fixture code against a stack-of-dicts reference with "
         "attribute values as unconstrained z3 integers and a raise-Boolean per cleanup; real runs with cleanups registered by "
         "hooks at every level and by steps (current layer / layer=feature / layer=testrun)", "DESIGN.md 4/C13",
         "symbolic execution of real code + z3 (bounded histories, symbolic values and fault flags)"),
 "C14": ("the real SummaryReporterV1 (all five output formats, attached as reporters so that run_model's reporter.feature/end loop "
         "is executed) and SummaryCollector are run on every path of the stage-1 exploration (outcomes over Z, stop/dry-run/selection/"
         "hook faults symbolic) and on a stage-2 kernel with symbolic step statuses; printed numbers are parsed back and compared "
         "with a direct census of the model", "DESIGN.md 4/C14",
         "symbolic execution of real code + z3 (path space by solver, per-path numeric comparison)"),
 "C07": ("the real v2 parser/evaluator (behave extensions + instrumented cucumber model classes) evaluates each enumerated expression "
         "(trees x renderings) on a symbolic tag set (14 z3 Booleans); the result of every evaluation trace is compared with the "
         "tree's Boolean formula by the solver, likewise after print->parse and after {config.tags} substitution", "DESIGN.md 4/C07",
         "symbolic execution of real code + z3 (symbolic tag set, complete truth tables by solver)"),
 "C08": ("v1 TagExpression and the auto-detection heuristics executed on symbolic tag sets for CNF texts with every prefix/limit "
         "combination (argument list and single string, protocols v1/auto), v2 renderings under auto_detect, and mixed texts that must "
         "raise TagExpressionError", "DESIGN.md 4/C08",
         "symbolic execution of real code + z3 (symbolic tag set; texts enumerated by solver-driven choice)"),
 "C09": ("real runs (ModelRunner) with the REAL tag expression evaluated on symbolic tag presence per element x tag: behave's own "
         "effective_tags inheritance feeds a symbolic tag set; per scenario the selection decision, statuses, call log and hooks are "
         "checked against the expression's formula over own+inherited presence Booleans", "DESIGN.md 4/C09",
         "symbolic execution of real code + z3 (tag presence symbolic, bounded trees and expression pool)"),
 "C04": ("the real parser runs on documents rendered from abstract trees whose lines are symbolic over their variants (keyword alias, "
         "indentation, trailing blanks/comments, cell padding, filler lines) inside a sliding window; the parsed model (structure, names, "
         "tags, step types incl. And/But/* inheritance, doc-strings, table cells, 1-based line numbers) is compared with the tree by "
         "solver queries; languages via '# language:' headers from the live keyword table", "DESIGN.md 4/C04",
         "symbolic execution of real code + z3 (finite line alphabets merged by the parser's own predicates)"),
 "C05": ("K-line documents with every line symbolic over the line alphabet pushed through all five parser entry points: the call must "
         "return or raise ParserError with 1 <= line <= K; catalogued grammar faults injected at a symbolic position into valid rendered "
         "documents must be reported at the injected line", "DESIGN.md 4/C05",
         "symbolic execution of real code + z3 (finite line alphabets merged by the parser's own predicates; symbolic fault position)"),
 "C06": ("the real ScenarioOutlineBuilder expands a parsed outline whose row cells are one symbolic choice over hostile value tuples "
         "(all str operations lifted pointwise; equality with a single-pass reference substitution decided by z3), table-API histories after "
         "a first expansion, and a cvc5 str.replace_all identity over unbounded bracket-free strings for the replacement chain read from the live code",
         "DESIGN.md 4/C06", "symbolic execution of real code + z3; SMT-LIB side query (cvc5 strings)"),
 "C19": ("the real ActiveTagMatcher/value objects/providers run on enumerated tag sequences with symbolic current values (numeric value an "
         "unbounded z3 integer under ge/le/eq, string and boolean values, symbolic knowledge of each category); should_exclude_with is "
         "compared with the documented per-category formula by the solver", "DESIGN.md 4/C19",
         "symbolic execution of real code + z3 (symbolic current values, enumerated tag sequences)"),
 "C10": ("FeatureLineDatabase.select_scenarios_by_line decided for an unconstrained z3 integer line against the 'entity at that line, else "
         "nearest entity above' formula on rendered documents; parse_features/collect_feature_locations/@listfile on real scratch files for "
         "every line 0..EOF+2 (and bare names), all pairs, several files; name selection through real runs", "DESIGN.md 4/C10",
         "symbolic execution of real code + z3 (symbolic query line; solver-enumerated locations for the file wrapper)"),
 "C17": ("the real RerunFormatter attached to real runs (outcomes, --stop, hook-fault position symbolic): listed locations == scenarios with "
         "failed/error-class status in run order, stale file removal, and the closed loop rerun file -> collect_feature_locations -> "
         "parse_features selects exactly the listed scenarios (incl. files with same-named scenarios)", "DESIGN.md 4/C17",
         "symbolic execution of real code + z3 (path space by solver, per-path report comparison)"),
 "C18": ("real runs with marker-writing steps and step hooks, the three capture switches as z3 Booleans (8 combinations), outcomes incl. "
         "KeyboardInterrupt and hook faults: sentinel stream identity at every formatter event, leak/pass-through of each marker, failing "
         "step reports holding exactly the scenario's output up to that step, root logger handlers/level around every scenario; Captured "
         "add/report kernel", "DESIGN.md 4/C18",
         "symbolic execution of real code + z3 (capture switches/outcomes/fault position symbolic; per-path stream observations)"),
 "C15": ("real runs with two recording formatters around a symbolically chosen line-up of built-in formatters (json, plain, progress*, "
         "pretty): event-stream grammar, identical streams, JSON validity and equality with the model after the run (features, scenarios, "
         "steps, statuses attached to their own element, read-back through JsonParser), plain/progress2 one entry per processed step; "
         "outcomes, show_skipped, dry-run, --stop, selection and a raising feature cleanup symbolic", "DESIGN.md 4/C15",
         "symbolic execution of real code + z3 (path space by solver, per-path report comparison)"),
 "C16": ("side queries: z3 over ALL code points (characters the live filter lets through are XML 1.0 Chars) and cvc5 str.replace_all over "
         "all strings up to a stated length for the CDATA pipeline whose stage order is read from the live code; real runs with the real "
         "JUnitReporter and hostile names/messages/captured output chosen symbolically: reports parse with expat, test cases == "
         "scenarios with final status, counters == entries, failure/error entries name the step or hook", "DESIGN.md 4/C16",
         "SMT side queries (z3 LIA, cvc5 strings) + symbolic execution of real code (path space by solver)"),
 "C20": ("userdata: parse_user_define on ONE symbolic choice over a grammar-generated pool of ~2600 -D texts (string operations lifted "
         "pointwise, equality with the documented parse decided by z3) and the typed getters; precedence: the real Configuration built in "
         "scratch directories for every flag/choice/scalar option of the live OPTIONS table with symbolic presence in ini/pyproject.toml "
         "and on the command line, seeded option triples, list order, config-file-relative paths/outfiles, -D over file userdata "
         "(this half is exhaustive path exploration rather than symbolic reasoning)", "DESIGN.md 4/C20",
         "symbolic execution of real code + z3 (finite alphabet merged; presence flags enumerated by solver)"),
 "C11": ("registration histories (type, pattern, function, matcher switches) enumerated by solver-driven choice through the real "
         "StepRegistry/matchers; after every history all lookups (step type x text pool) are compared with an independent full-match "
         "reference (type-specific before generic, earlier first), plus ambiguity/duplicate rules, Match.run argument passing and argument "
         "spans; path space only - step text is not symbolic (parse/re C engines, see not-applicable sub-claims in DESIGN.md 6)", "DESIGN.md 4/C11",
         "symbolic execution of real code + z3 (histories by solver-driven choice; per-history concrete comparison)"),
}
NA_REASON = "check not built yet in this round (planned, see DESIGN.md section 4)"
checks = []
for pid in props:
    if pid in CLAIMED:
        text, ref, tech = CLAIMED[pid]
        checks.append({
            "property_id": pid,
            "quick_cmd": "./check %s --tier quick" % pid,
            "thorough_cmd": "./check %s --tier thorough" % pid,
            "evidence_file": "evidence/%s.json" % pid,
            "replay_cmd_template": "./check --replay {path}",
            "engine": "symx",
            "level_claimed": {"category": "model_checking", "text": text, "design_ref": ref},
            "level_note": TRUST,
            "technique": tech,
        })
man = {
 "version": 1,
 "setup_cmd": "./setup.sh",
 "hooks": {"guard": "BEHAVE_BEHAVE_VERIF", "enable": "none needed: the import hook of /verif/symx re-compiles behave.* "
           "from /repo's current source in the checking process; no source hooks exist in /repo",
           "baseline_off_cmd": "cd /repo && /venv/bin/python -m pytest -ra -q -p no:cacheprovider --timeout=900 --continue-on-collection-errors",
           "source_commits": [], "add_only": True},
 "engines": [{"name": "symx", "path": "symx/", "serves_properties": sorted(CLAIMED),
              "kind_free_text": "solver-based: AST import-hook instrumentation of the real behave modules + z3-backed proxy "
                                "values + decision-tree re-execution; counterexamples replayed on the uninstrumented package"}],
 "checks": checks,
 "not_applicable": [{"property_id": p, "reason": NA_REASON} for p in props if p not in CLAIMED],
 "notes": "Exit codes: 0 held / 1 VIOLATION / 2 inconclusive / 3 harness error. known_findings.json lists recorded findings and fixed: entries.",
}
json.dump(man, open(os.path.join(HERE, "MANIFEST.json"), "w"), indent=1)
print("claimed", len(checks), "n/a", len(man["not_applicable"]))
