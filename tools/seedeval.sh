#!/bin/bash
# usage: tools/seedeval.sh <seed-dir-name e.g. C12a> <PROP> [tier]
# Confirms a seeded change (demo fails with it / passes without, baseline unchanged) in a scratch worktree of
# /repo HEAD, then runs the property's check against that patched worktree (VERIF_REPO), and removes it.
set -u
N=$1; P=$2; TIER=${3:-quick}
SRC=/tmp/seed/$N/SEED
[ -f $SRC/patch.diff ] || SRC=/verif/seeded/$N
[ -f $SRC/patch.diff ] || { echo "no patch in $SRC"; exit 9; }
WT=/tmp/seedeval-$N
git -C /repo worktree remove --force $WT 2>/dev/null
git -C /repo worktree add -q $WT HEAD || exit 9
mkdir -p $WT/SEED && cp $SRC/demo.py $WT/SEED/ 2>/dev/null; cp -r $SRC/* $WT/SEED/ 2>/dev/null
cd $WT
echo "== demo on unpatched HEAD"; /venv/bin/python SEED/demo.py > /tmp/seedeval-$N.orig.log 2>&1; RC0=$?; echo "rc=$RC0"
git apply --whitespace=nowarn $SRC/patch.diff || { echo "PATCH DOES NOT APPLY to HEAD"; cd /; git -C /repo worktree remove --force $WT; exit 9; }
echo "== demo with patch"; /venv/bin/python SEED/demo.py > /tmp/seedeval-$N.mut.log 2>&1; RC1=$?; echo "rc=$RC1"; tail -3 /tmp/seedeval-$N.mut.log
echo "== baseline with patch"
/venv/bin/python - <<PY
import json, subprocess, os, tempfile, xml.etree.ElementTree as ET
b = json.load(open("/root/.vp/BASELINE.json"))
x = tempfile.mktemp(suffix=".xml")
cmd = b["cmd"].replace("cd /repo", "cd $WT").replace("<file>", x)
subprocess.run(cmd, shell=True, capture_output=True, text=True, env=dict(os.environ, PYTHONDONTWRITEBYTECODE="1"))
passed = set(); failed=set()
for tc in ET.parse(x).getroot().iter("testcase"):
    k = "%s::%s" % (tc.get("classname"), tc.get("name"))
    if any(c.tag in ("failure", "error") for c in tc): failed.add(k)
    elif not any(c.tag == "skipped" for c in tc): passed.add(k)
missing = [t for t in b["stable_pass"] if t not in passed]
print("BASELINE stable_pass=%d passed=%d failed=%d missing=%d" % (len(b["stable_pass"]), len(passed), len(failed), len(missing)), missing[:5])
PY
echo "== check $P ($TIER) against the patched scratch worktree (VERIF_REPO)"
cd /verif && VERIF_REPO=$WT ./check $P --tier $TIER --no-evidence > /tmp/seedeval-$N.check.log 2>&1; RC=$?
cd /; git -C /repo worktree remove --force $WT
grep -c "^VIOLATION" /tmp/seedeval-$N.check.log; grep -v "^WARNING conda" /tmp/seedeval-$N.check.log | grep -v "^VIOLATION" | cut -c1-700 | tail -6
echo "SUMMARY seed=$N prop=$P demo_orig_rc=$RC0 demo_patched_rc=$RC1 check_exit=$RC"
git -C /repo status --short | head -3
