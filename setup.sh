#!/bin/bash
# Offline setup: z3-solver (and cvc5 bindings) from the local wheelhouse into /verif/.deps
set -e
HERE="$(cd "$(dirname "$0")" && pwd)"
if [ ! -f "$HERE/.deps/z3/__init__.py" ]; then
  rm -rf "$HERE/.deps.tmp"
  PIP_NO_INDEX=1 /venv/bin/pip install -q --no-index --find-links /opt/veriftools/wheels \
      --target "$HERE/.deps.tmp" z3-solver
  rm -rf "$HERE/.deps"
  mv "$HERE/.deps.tmp" "$HERE/.deps"
fi
PYTHONPATH="$HERE/.deps" /venv/bin/python -c "import z3; print('z3', z3.get_version_string())"
