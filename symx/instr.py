"""Import-hook instrumentation: behave.* (and cucumber_tag_expressions.*) are re-compiled from the
*current* source on every run with a small AST rewrite, so that the real code runs natively on
the proxy values of symx.core.  Nothing is written into /repo."""
import ast
import builtins
import hashlib
import importlib.abc
import importlib.machinery
import sys
import collections
import types

import z3

from . import core
from .core import SymBool, SymInt, SymEnum, SymChoice, SymTagSet, Unsupported, zbool, lift_call

STATS = {}          # path -> {"sites": n, "sha": ..}
CALL_PROFILE = set()    # module names that get call / % lifting
_NO_WRAP = {"super", "locals", "globals", "vars", "dir", "isinstance", "sx__isinstance"}


class Rewriter(ast.NodeTransformer):
    def __init__(self, lift_calls):
        self.n = 0
        self.lift_calls = lift_calls

    def _call(self, fn, *args):
        self.n += 1
        return ast.Call(ast.Name(fn, ast.Load()), list(args), [])

    def visit_Compare(self, node):
        self.generic_visit(node)
        if len(node.ops) == 1:
            op = node.ops[0]
            l = node.left
            r = node.comparators[0]
            if isinstance(op, ast.Is):
                return self._call("sx__is", l, r)
            if isinstance(op, ast.IsNot):
                return self._call("sx__not", self._call("sx__is", l, r))
            if isinstance(op, ast.In):
                return self._call("sx__in", l, r)
            if isinstance(op, ast.NotIn):
                return self._call("sx__not", self._call("sx__in", l, r))
        return node

    def visit_UnaryOp(self, node):
        self.generic_visit(node)
        if isinstance(node.op, ast.Not):
            return self._call("sx__not", node.operand)
        return node

    def visit_BinOp(self, node):
        self.generic_visit(node)
        if self.lift_calls and isinstance(node.op, ast.Mod):
            return self._call("sx__mod", node.left, node.right)
        return node

    def visit_Call(self, node):
        self.generic_visit(node)
        if isinstance(node.func, ast.Name) and node.func.id == "isinstance":
            self.n += 1
            node.func = ast.Name("sx__isinstance", ast.Load())
            return node
        if not self.lift_calls:
            return node
        if isinstance(node.func, ast.Name) and node.func.id in _NO_WRAP:
            return node
        if any(isinstance(a, ast.Starred) for a in node.args) or any(k.arg is None for k in node.keywords):
            pass    # still fine: sx__call(f, *a, **k)
        self.n += 1
        return ast.Call(ast.Name("sx__call", ast.Load()), [node.func] + node.args, node.keywords)


class SxLoader(importlib.machinery.SourceFileLoader):
    def get_code(self, fullname):
        path = self.get_filename(fullname)
        data = self.get_data(path)
        tree = ast.parse(data, filename=path)
        rw = Rewriter(fullname in CALL_PROFILE)
        tree = rw.visit(tree)
        ast.fix_missing_locations(tree)
        STATS[fullname] = {"path": path, "sites": rw.n, "sha": hashlib.sha256(data).hexdigest()[:16],
                           "call_lifting": fullname in CALL_PROFILE}
        return compile(tree, path, "exec", dont_inherit=True)


class SxFinder(importlib.abc.MetaPathFinder):
    def __init__(self, prefixes):
        self.prefixes = tuple(prefixes)

    def find_spec(self, fullname, path, target=None):
        if not any(fullname == p or fullname.startswith(p + ".") for p in self.prefixes):
            return None
        spec = importlib.machinery.PathFinder.find_spec(fullname, path)
        if spec is None or not isinstance(spec.loader, importlib.machinery.SourceFileLoader):
            return spec
        spec.loader = SxLoader(spec.loader.name, spec.loader.path)
        return spec


# ----------------------------------------------------------------------------------------------
# hooks (reduce to the original operation when nothing symbolic is involved)
# ----------------------------------------------------------------------------------------------
_SYM = (SymBool, SymInt, SymEnum, SymChoice)


def sx_is(a, b):
    if isinstance(a, SymEnum) and a._fixed is not None:
        a = a._fixed
    if isinstance(b, SymEnum) and b._fixed is not None:
        b = b._fixed
    if isinstance(a, SymEnum) or isinstance(b, SymEnum):
        if isinstance(a, SymEnum) and isinstance(b, SymEnum):
            return SymBool(a.e == b.e) if a._cls is b._cls else False
        s, o = (a, b) if isinstance(a, SymEnum) else (b, a)
        if isinstance(o, SymChoice):
            o = o.concretize()
        if isinstance(o, s._cls):
            return SymBool(core.eqc(s.e, o.value))
        return False
    if isinstance(a, SymChoice) or isinstance(b, SymChoice):
        # identity with None/True/False and small constants: value comparison by identity pointwise
        return lift_call(lambda x, y: x is y, (a, b), {})
    if isinstance(a, SymBool) or isinstance(b, SymBool):
        s, o = (a, b) if isinstance(a, SymBool) else (b, a)
        if o is True:
            return s
        if o is False:
            return SymBool(z3.Not(s.e))
        if isinstance(o, SymBool):
            return SymBool(s.e == o.e)
        return False
    return a is b


def sx_not(a):
    if isinstance(a, SymBool):
        return SymBool(z3.Not(a.e))
    if isinstance(a, SymInt):
        return SymBool(a.e == 0)
    if isinstance(a, SymChoice):
        return sx_not(a._apply(lambda v: bool(v)))
    hook = getattr(type(a), "sx_not", None)
    if hook is not None:
        return hook(a)
    return not a


def _eq(a, x):
    r = (a == x)
    return r


def sx_in(a, seq):
    if isinstance(a, SymEnum) and a._fixed is not None:
        a = a._fixed
    hook = getattr(type(seq), "sx_contains", None)
    if hook is not None:
        return hook(seq, a)
    if isinstance(seq, SymChoice):
        return lift_call(lambda x, y: x in y, (a, seq), {})
    if isinstance(a, SymChoice):
        if isinstance(seq, (tuple, list)) and any(isinstance(x, _SYM) for x in seq):
            return SymBool(z3.Or([zbool(_eq(a, x)) for x in seq]))
        return a._apply(lambda v: v in seq)
    if isinstance(a, (SymEnum, SymInt, SymBool)):
        if isinstance(seq, (tuple, list)):
            return SymBool(z3.Or([zbool(_eq(a, x)) for x in seq]))
        if isinstance(seq, (set, frozenset, dict)):
            if isinstance(a, SymEnum):
                return a.concretize() in seq
            raise Unsupported("symbolic value tested for membership in a hashed container")
        return a in seq
    if isinstance(seq, (tuple, list)) and any(isinstance(x, _SYM) for x in seq):
        return SymBool(z3.Or([zbool(_eq(x, a)) for x in seq]))
    return a in seq


def sx_isinstance(x, t):
    if isinstance(x, SymEnum):
        ts = t if isinstance(t, tuple) else (t,)
        return any(issubclass(x._cls, tt) for tt in ts)
    if isinstance(x, SymChoice):
        return x._apply(lambda v: isinstance(v, t))
    if isinstance(x, SymInt):
        ts = t if isinstance(t, tuple) else (t,)
        return any(tt is int or tt is object for tt in ts)
    if isinstance(x, SymBool):
        ts = t if isinstance(t, tuple) else (t,)
        return any(tt in (bool, int, object) for tt in ts)
    hook = getattr(type(x), "sx_isinstance", None)
    if hook is not None:
        return hook(x, t)
    return isinstance(x, t)


def _anysym(a, kw):
    for x in a:
        if isinstance(x, SymChoice):
            return True
        if type(x) in (tuple, list):
            for y in x:
                if isinstance(y, SymChoice):
                    return True
    for x in kw.values():
        if isinstance(x, SymChoice):
            return True
    return False


_AWARE = ("behave", "cucumber_tag_expressions", "props", "vlib", "symx", "__main__")


def _proxy_aware(fn):
    mod = getattr(fn, "__module__", "") or ""
    return mod.split(".")[0] in _AWARE


_MUTABLE = (list, dict, set, bytearray, collections.deque)
_STORE = ("append", "appendleft", "insert", "add", "setdefault", "__setitem__")
_CONSUME = ("update", "extend", "extendleft", "__iadd__", "__ior__", "difference_update", "intersection_update",
            "symmetric_difference_update")


def sx_call(f, *a, **kw):
    if a and isinstance(a[0], core.CondTag):
        import fnmatch
        if f in (fnmatch.fnmatchcase, fnmatch.fnmatch) and len(a) == 2 and isinstance(a[1], str):
            return a[0].holds(f(a[0].text, a[1]))
        raise Unsupported("CondTag passed to %r" % (f,))
    if a and isinstance(a[0], SymTagSet) and f in (set, frozenset, list, tuple, sorted):
        return a[0].copy()
    if a and isinstance(a[0], SymTagSet) and f is len:
        return a[0].sx_len()
    if a and isinstance(a[0], SymInt) and getattr(f, "__name__", "") == "get" and isinstance(getattr(f, "__self__", None), dict):
        # dict.get(symbolic int key): case split over the (concrete) keys
        d = f.__self__
        for k in list(d.keys()):
            if isinstance(k, int) and not isinstance(k, bool) and a[0] == k:
                return d[k]
        return a[1] if len(a) > 1 else kw.get("default")
    if not _anysym(a, kw):
        if isinstance(f, types.BuiltinMethodType) and isinstance(getattr(f, "__self__", None), SymChoice):
            return f(*a, **kw)
        return f(*a, **kw)
    # python-level function from an instrumented (or harness) module, or a bound method of a proxy:
    # call through; python functions of other modules (re.match, fnmatch, ...) are lifted pointwise
    if isinstance(f, types.FunctionType) and _proxy_aware(f):
        return f(*a, **kw)
    if isinstance(f, types.MethodType):
        if isinstance(f.__self__, SymChoice) or (isinstance(f.__func__, types.FunctionType) and _proxy_aware(f.__func__)):
            return f(*a, **kw)
    if isinstance(f, type):
        mod = getattr(f, "__module__", "") or ""
        if (mod.startswith("behave") and not issubclass(f, (str, int, tuple, BaseException))):
            return f(*a, **kw)
        if issubclass(f, BaseException):
            # exception constructors: keep the (lazy) symbolic argument; str() concretises later
            return f(*a, **kw)
    # mutators of built-in containers are never lifted pointwise (that would perform the mutation once per candidate):
    # element-storing methods keep the proxy, iterable-consuming ones get a concretised (forked) argument
    if isinstance(f, types.BuiltinMethodType) and isinstance(getattr(f, "__self__", None), _MUTABLE):
        name = getattr(f, "__name__", "")
        if name in _STORE:
            return f(*a, **kw)
        if name in _CONSUME:
            return f(*[x.concretize() if isinstance(x, SymChoice) else x for x in a],
                     **{k: (v.concretize() if isinstance(v, SymChoice) else v) for k, v in kw.items()})
    # C-level callable / str-subclass constructor: lift pointwise.  Tuples/lists holding symbolic
    # members are lifted element-wise (e.g. "%s:%s" % (a, b), "".join([...])).
    flat = []
    shape = []
    for x in a:
        if type(x) in (tuple, list) and any(isinstance(y, SymChoice) for y in x):
            shape.append((type(x), len(x)))
            flat.extend(x)
        else:
            shape.append(None)
            flat.append(x)

    def g(*fa, **fk):
        it = iter(fa)
        args = []
        for s in shape:
            if s is None:
                args.append(next(it))
            else:
                args.append(s[0](next(it) for _ in range(s[1])))
        return f(*args, **fk)
    return lift_call(g, tuple(flat), kw)


def sx_mod(l, r):
    if isinstance(r, tuple) and any(isinstance(x, SymChoice) for x in r):
        return lift_call(lambda ll, *rr: ll % tuple(rr), (l,) + r, {})
    if isinstance(r, SymChoice) or isinstance(l, SymChoice):
        return lift_call(lambda x, y: x % y, (l, r), {})
    return l % r


_installed = False


def install(prefixes=("behave", "cucumber_tag_expressions"), call_profile=()):
    global _installed
    CALL_PROFILE.update(call_profile)
    builtins.sx__is = sx_is
    builtins.sx__not = sx_not
    builtins.sx__in = sx_in
    builtins.sx__isinstance = sx_isinstance
    builtins.sx__call = sx_call
    builtins.sx__mod = sx_mod
    if not _installed:
        loaded = [m for m in sys.modules if any(m == p or m.startswith(p + ".") for p in prefixes)]
        if loaded:
            raise core.HarnessError("install() after import of %s" % loaded[:3])
        sys.meta_path.insert(0, SxFinder(prefixes))
        _installed = True


def installed():
    return _installed
