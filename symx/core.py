"""symx core: decision-tree exploration by re-execution + z3-backed proxy values.

A *harness* is an ordinary Python function ``h(sx)`` where ``sx`` is a :class:`Session`.
It creates symbols through the session (``sx.int``, ``sx.bool``, ``sx.enum``, ``sx.choice``),
pushes them through the real (instrumented) behave code and states its oracle with
``sx.check(cond, label)``.  In *symbolic* mode every truth test of a symbolic value is decided by an
incremental z3 solver and the harness is re-executed until every feasible path has been run.  In
*concrete* mode (used for replay against the uninstrumented package) the same constructors return
plain Python values taken from an assignment.
"""
import time
import types
import z3


class PathAbort(BaseException):
    """Internal: abandon the current path (all continuations explored / assumption infeasible)."""


class Unsupported(BaseException):
    """An operation on a symbolic value that the engine cannot represent (=> inconclusive)."""


class HarnessError(BaseException):
    """Engine/harness inconsistency (non-determinism, replay mismatch, ...)."""


class BudgetExceeded(BaseException):
    pass


_CUR = None     # the active Explorer (symbolic mode) or None
_MEMO = {}      # cache of frequently rebuilt z3 terms (cleared per exploration)


def eqc(e, val):
    """Cached z3 term `e == val` for an Int expression and a Python int."""
    k = (e.get_id(), val)
    r = _MEMO.get(k)
    if r is None:
        r = _MEMO[k] = (e, e == val)    # keep e alive so that its id is not reused
    return r[1]


def memo(key, build):
    r = _MEMO.get(key)
    if r is None:
        r = _MEMO[key] = build()
    return r


def current():
    return _CUR


# ----------------------------------------------------------------------------------------------
# Explorer
# ----------------------------------------------------------------------------------------------
class Node(object):
    __slots__ = ("cond", "kids", "done", "kind")

    def __init__(self):
        self.cond = None
        self.kids = None    # dict: bool -> Node
        self.done = False
        self.kind = None


class Explorer(object):
    def __init__(self, max_paths=200000, deadline=None, timeout_ms=20000):
        self.solver = z3.Solver()
        self.solver.set("timeout", timeout_ms)
        self.root = Node()
        self.queries = 0
        self.solver_time = 0.0
        self.max_paths = max_paths
        self.deadline = deadline
        self.paths = 0              # completed paths
        self.aborted_paths = 0      # assumed-away / infeasible leaves
        self.nodes = 0
        self.leaves = []            # (kind, [z3 literals]) for the closure query (bounded)
        self.keep_leaves = 4000
        self.leaves_overflow = False
        self.trail = None
        self.node = None

    # -- solver helpers
    def check(self, *extra):
        t = time.time()
        self.queries += 1
        r = self.solver.check(*extra)
        self.solver_time += time.time() - t
        if r == z3.unknown:
            raise Unsupported("solver answered unknown: %s" % self.solver.reason_unknown())
        return r

    def model_for(self, *extra):
        r = self.check(*extra)
        if r != z3.sat:
            return None
        return self.solver.model()

    # -- path control
    def start_path(self):
        self.node = self.root
        self.stack = [self.root]
        self.trail = []
        self.solver.reset()
        self.solver.set("timeout", 20000)

    def _add(self, c):
        self.trail.append(c)
        self.solver.add(c)

    def constrain(self, c):
        """Add a domain constraint / assumption as a tree node whose False side is a dead leaf."""
        n = self.node
        if n.kids is None:
            n.cond = c
            n.kind = "assume"
            self.nodes += 1
            kids = {}
            if self.check(c) == z3.sat:
                kids[True] = Node()
            # the excluded side is recorded as an (intentionally) uncovered leaf
            self._leaf("assumed-away", self.trail + [z3.Not(c)])
            n.kids = kids
        else:
            self._same(n, c, "assume")
        sub = n.kids.get(True)
        if sub is None or sub.done:
            n.done = True
            raise PathAbort()
        self.node = sub
        self.stack.append(sub)
        self._add(c)

    def _same(self, n, c, kind):
        if n.kind != kind or not z3.eq(n.cond, c):
            raise HarnessError("non-deterministic harness: decision point changed between runs "
                               "(%s vs %s)" % (n.cond, c))

    def branch(self, cond):
        n = self.node
        if n.kids is None:
            n.cond = cond
            n.kind = "branch"
            self.nodes += 1
            kids = {}
            rt = self.check(cond)
            if rt == z3.sat:
                kids[True] = Node()
                if self.check(z3.Not(cond)) == z3.sat:
                    kids[False] = Node()
            else:
                kids[False] = Node()    # pc is satisfiable (invariant), so the other side is
            n.kids = kids
        else:
            self._same(n, cond, "branch")
        for v in (True, False):
            sub = n.kids.get(v)
            if sub is not None and not sub.done:
                self.node = sub
                self.stack.append(sub)
                if len(n.kids) > 1:
                    self._add(cond if v else z3.Not(cond))
                return v
        n.done = True
        raise PathAbort()

    def _leaf(self, kind, lits):
        if len(self.leaves) < self.keep_leaves:
            self.leaves.append((kind, list(lits)))
        else:
            self.leaves_overflow = True

    def end_path(self, ok=True):
        self.node.done = True
        if ok:
            self.paths += 1
            self._leaf("path", self.trail)
        else:
            self.aborted_paths += 1
        for n in reversed(self.stack[:-1]):
            if n.kids is not None and all(k.done for k in n.kids.values()):
                n.done = True
                n.kids = {}
            else:
                break

    def _propagate(self, n):
        # iterative post-order propagation of 'done' along the current trail would be cheaper, but
        # trees here are small (<= few 100k nodes); recursion is bounded by path length.
        if n.done:
            return True
        if n.kids is None:
            return False
        alld = True
        for k in n.kids.values():
            if not self._propagate(k):
                alld = False
        if alld:
            n.done = True
            n.kids = {}     # free memory
        return alld

    def exhausted(self):
        return self.root.done

    def closure_query(self):
        """The explored leaves (completed + intentionally assumed-away) must cover everything."""
        if self.leaves_overflow:
            return "skipped(>%d leaves)" % self.keep_leaves
        s = z3.Solver()
        s.set("timeout", 60000)
        s.add(z3.Not(z3.Or([z3.And(l) if l else z3.BoolVal(True) for _, l in self.leaves])))
        r = s.check()
        return {"unsat": "covered", "sat": "GAP"}.get(str(r), "unknown")


# ----------------------------------------------------------------------------------------------
# Proxy values
# ----------------------------------------------------------------------------------------------
class SymBool(object):
    __slots__ = ("e",)

    def __init__(self, e):
        self.e = e

    def __bool__(self):
        if _CUR is None:
            raise HarnessError("SymBool outside exploration")
        return _CUR.branch(self.e)

    def __eq__(self, o):
        return SymBool(self.e == zbool(o))

    def __ne__(self, o):
        return SymBool(self.e != zbool(o))

    def __and__(self, o):
        return SymBool(z3.And(self.e, zbool(o)))
    __rand__ = __and__

    def __or__(self, o):
        return SymBool(z3.Or(self.e, zbool(o)))
    __ror__ = __or__

    def __invert__(self):
        return SymBool(z3.Not(self.e))

    def __hash__(self):
        return hash(bool(self))

    def __repr__(self):
        return "<SymBool %s>" % self.e


def zbool(x):
    """z3 Bool for a Python truth value or SymBool (never forks)."""
    if isinstance(x, SymBool):
        return x.e
    if isinstance(x, SymInt):
        return x.e != 0
    if isinstance(x, SymChoice):
        return zbool(x._apply(bool))
    if z3.is_expr(x):
        return x
    return z3.BoolVal(bool(x))


class SymInt(object):
    __slots__ = ("e",)

    def __init__(self, e):
        self.e = e

    @staticmethod
    def _o(o):
        if isinstance(o, SymInt):
            return o.e
        if isinstance(o, bool):
            return int(o)
        if isinstance(o, int):
            return o
        return None

    def _cmp(self, o, op, dflt):
        v = self._o(o)
        if v is None:
            if dflt is None:
                raise Unsupported("SymInt compared with %r" % (o,))
            return dflt
        return SymBool(op(self.e, v))

    def __eq__(self, o): return self._cmp(o, lambda a, b: a == b, False)
    def __ne__(self, o): return self._cmp(o, lambda a, b: a != b, True)
    def __lt__(self, o): return self._cmp(o, lambda a, b: a < b, None)
    def __le__(self, o): return self._cmp(o, lambda a, b: a <= b, None)
    def __gt__(self, o): return self._cmp(o, lambda a, b: a > b, None)
    def __ge__(self, o): return self._cmp(o, lambda a, b: a >= b, None)

    def _ar(self, o, op):
        v = self._o(o)
        if v is None:
            return NotImplemented
        return SymInt(op(self.e, v))

    def __add__(self, o): return self._ar(o, lambda a, b: a + b)
    __radd__ = __add__
    def __sub__(self, o): return self._ar(o, lambda a, b: a - b)
    def __rsub__(self, o): return self._ar(o, lambda a, b: b - a)
    def __mul__(self, o): return self._ar(o, lambda a, b: a * b)
    __rmul__ = __mul__
    def __neg__(self): return SymInt(-self.e)
    def __pos__(self): return self

    def __bool__(self):
        return bool(SymBool(self.e != 0))

    def __hash__(self):
        raise Unsupported("hash(SymInt)")

    def __index__(self):
        raise Unsupported("SymInt used as index/int")

    def __int__(self):
        raise Unsupported("int(SymInt)")

    def __repr__(self):
        return "<SymInt %s>" % self.e

    def __str__(self):
        raise Unsupported("str(SymInt)")

    def __format__(self, spec):
        raise Unsupported("format(SymInt)")


class SymEnum(object):
    """Symbolic member of an Enum class.  ``e`` is a z3 Int holding the member's ``.value``.
    Methods/properties are delegated to the *real* functions of the class with self = proxy."""

    def __init__(self, cls, e, domain=None):
        object.__setattr__(self, "_cls", cls)
        object.__setattr__(self, "e", e)
        object.__setattr__(self, "_domain", tuple(domain) if domain is not None else tuple(cls))
        object.__setattr__(self, "_fixed", None)    # (path-local) member once concretised

    def __getattr__(self, name):
        cls = object.__getattribute__(self, "_cls")
        fixed = object.__getattribute__(self, "_fixed")
        if fixed is not None:
            return getattr(fixed, name)
        if name == "name":
            return self.concretize().name
        if name == "value":
            return SymInt(self.e)
        if name == "__class__":
            return cls
        attr = cls.__dict__.get(name)
        if attr is None:
            attr = getattr(cls, name)
        if isinstance(attr, types.FunctionType):
            return types.MethodType(attr, self)
        if isinstance(attr, property):
            return attr.fget(self)
        if isinstance(attr, classmethod):
            return attr.__get__(None, cls)
        if isinstance(attr, staticmethod):
            return attr.__get__(None, cls)
        if isinstance(attr, cls):       # Status.passed accessed through an instance
            return attr
        raise Unsupported("SymEnum.%s" % name)

    def __setattr__(self, k, v):
        raise Unsupported("setattr on SymEnum")

    def concretize(self):
        """Fork until one member remains: binary splitting over the sorted member values."""
        if self._fixed is not None:
            return self._fixed
        ms = sorted(self._domain, key=lambda m: m.value)
        while len(ms) > 1:
            mid = ms[(len(ms) - 1) // 2]
            if SymBool(memo(("le", self.e.get_id(), mid.value), lambda: (self.e, self.e <= mid.value))[1]):
                ms = ms[:(len(ms) - 1) // 2 + 1]
            else:
                ms = ms[(len(ms) - 1) // 2 + 1:]
        object.__setattr__(self, "_fixed", ms[0])
        return ms[0]

    def _eq(self, other):
        cls = self._cls
        if self._fixed is not None:
            if isinstance(other, SymEnum):
                return other._eq(self._fixed)
            return self._fixed == other
        if isinstance(other, SymEnum):
            if other._cls is not cls:
                return False
            return SymBool(self.e == other.e)
        if isinstance(other, cls):
            return SymBool(eqc(self.e, other.value))
        if isinstance(other, str) and getattr(cls, "_sx_str_eq", False):
            ms = [m for m in cls if m.name == other]
            return SymBool(z3.Or([eqc(self.e, m.value) for m in ms])) if ms else False
        if isinstance(other, SymChoice):
            return self._eq(other.concretize())
        return False

    def __eq__(self, other):
        return self._eq(other)

    def __ne__(self, other):
        r = self._eq(other)
        return SymBool(z3.Not(r.e)) if isinstance(r, SymBool) else (not r)

    def __hash__(self):
        return hash(self.concretize())

    def __bool__(self):
        return True

    def __repr__(self):
        return "<SymEnum %s %s>" % (self._cls.__name__, self.e)

    def __str__(self):
        return str(self.concretize())

    def __reduce__(self):
        raise Unsupported("pickle/deepcopy of SymEnum")

    def __deepcopy__(self, memo):
        return self

    def __copy__(self):
        return self


def _rkey(r):
    try:
        hash(r)
        return (type(r), r)
    except TypeError:
        return (type(r), repr(r))


def sel_in(sel, idxs):
    idxs = sorted(set(idxs))
    parts = []
    i = 0
    while i < len(idxs):
        j = i
        while j + 1 < len(idxs) and idxs[j + 1] == idxs[j] + 1:
            j += 1
        parts.append(z3.And(sel >= idxs[i], sel <= idxs[j]) if j > i else sel == idxs[i])
        i = j + 1
    if not parts:
        return z3.BoolVal(False)
    return parts[0] if len(parts) == 1 else z3.Or(parts)


class SymChoice(object):
    """Symbolic choice among finitely many concrete Python values (pointwise lifting).

    ``sel`` is a z3 Int (index variable); ``cands`` a list of (index, value).  Several SymChoice
    objects may share a selector (results of lifted operations)."""
    __slots__ = ("sel", "cands")

    def __init__(self, sel, cands):
        object.__setattr__(self, "sel", sel)
        object.__setattr__(self, "cands", cands)

    # -- core: group candidates by result of fn
    def _groups(self, fn):
        groups = {}
        order = []
        for idx, v in self.cands:
            try:
                r = fn(v)
                key = ("ok",) + _rkey(r)
            except Exception as e:    # noqa - pointwise exception becomes a result class
                r = e
                key = ("exc", type(e), str(e))
            g = groups.get(key)
            if g is None:
                groups[key] = g = (r, [])
                order.append(key)
            g[1].append(idx)
        return groups, order

    def _apply(self, fn):
        groups, order = self._groups(fn)
        if len(order) == 1:
            r = groups[order[0]][0]
            if order[0][0] == "exc":
                raise r
            return r
        if all(k[0] == "ok" and k[1] is bool for k in order):
            tr = [i for k in order if groups[k][0] for i in groups[k][1]]
            return SymBool(sel_in(self.sel, tr))
        if all(k[0] == "ok" for k in order):
            cands = []
            for k in order:
                r, idxs = groups[k]
                for i in idxs:
                    cands.append((i, r))
            cands.sort(key=lambda t: t[0])
            return SymChoice(self.sel, cands)
        # mixture with exceptions: fork per class
        for k in order:
            r, idxs = groups[k]
            if SymBool(sel_in(self.sel, idxs)):
                if k[0] == "exc":
                    raise r
                # narrow to the non-raising candidates of this class
                return r
        raise HarnessError("SymChoice: no feasible class")

    def concretize(self):
        groups, order = self._groups(lambda v: v)
        if len(order) == 1:
            return groups[order[0]][0]
        for k in order:
            r, idxs = groups[k]
            if SymBool(sel_in(self.sel, idxs)):
                return r
        raise HarnessError("SymChoice: no feasible candidate")

    def _map_index(self):
        return dict(self.cands)

    def __getattr__(self, name):
        if name.startswith("__") and name.endswith("__"):
            raise AttributeError(name)

        def method(*a, **kw):
            return lift_call(lambda v, *aa, **kk: getattr(v, name)(*aa, **kk), (self,) + a, kw)
        # attribute (non-callable) access: decide by looking at the first candidate
        try:
            first = getattr(self.cands[0][1], name)
        except AttributeError:
            first = None
            if not any(hasattr(v, name) for _, v in self.cands):
                raise
        if first is not None and not callable(first):
            return self._apply(lambda v: getattr(v, name))
        return method

    def __bool__(self): return bool(self._apply(bool))
    def __len__(self):
        r = self._apply(len)
        return r.concretize() if isinstance(r, SymChoice) else r
    def __eq__(self, o): return lift_call(lambda a, b: a == b, (self, o), {})
    def __ne__(self, o): return lift_call(lambda a, b: a != b, (self, o), {})
    def __lt__(self, o): return lift_call(lambda a, b: a < b, (self, o), {})
    def __le__(self, o): return lift_call(lambda a, b: a <= b, (self, o), {})
    def __gt__(self, o): return lift_call(lambda a, b: a > b, (self, o), {})
    def __ge__(self, o): return lift_call(lambda a, b: a >= b, (self, o), {})
    def __getitem__(self, k):
        if isinstance(k, slice):
            return lift_call(lambda a, s0, s1, s2: a[slice(s0, s1, s2)], (self, k.start, k.stop, k.step), {})
        return lift_call(lambda a, b: a[b], (self, k), {})
    def __contains__(self, x): return bool(lift_call(lambda a, b: b in a, (self, x), {}))
    def __add__(self, o): return lift_call(lambda a, b: a + b, (self, o), {})
    def __radd__(self, o): return lift_call(lambda a, b: b + a, (self, o), {})
    def __mod__(self, o): return lift_call(lambda a, b: a % b, (self, o), {})
    def __rmod__(self, o): return lift_call(lambda a, b: b % a, (self, o), {})
    def __mul__(self, o): return lift_call(lambda a, b: a * b, (self, o), {})
    def __str__(self): return str(self.concretize())
    def __repr__(self): return "<SymChoice %d cands>" % len(self.cands)
    def __hash__(self): return hash(self.concretize())
    def __iter__(self): return iter(self.concretize())
    def __int__(self): return int(self.concretize())
    def __index__(self): return self.concretize().__index__()
    def __format__(self, spec): return format(self.concretize(), spec)
    def __deepcopy__(self, memo): return self
    def __copy__(self): return self
    def __fspath__(self): return self.concretize()


def lift_call(f, args, kwargs):
    """Call f pointwise over all SymChoice arguments that share one selector; SymChoice arguments
    with a different selector are concretised first (forks)."""
    syms = [x for x in args if isinstance(x, SymChoice)] + \
           [x for x in kwargs.values() if isinstance(x, SymChoice)]
    if not syms:
        return f(*args, **kwargs)
    sel = syms[0].sel

    def prep(x):
        if isinstance(x, SymChoice) and not z3.eq(x.sel, sel):
            return x.concretize()
        return x
    a2 = [prep(x) for x in args]
    k2 = {k: prep(v) for k, v in kwargs.items()}
    sy = [x for x in a2 if isinstance(x, SymChoice)] + [x for x in k2.values() if isinstance(x, SymChoice)]
    idxsets = [set(i for i, _ in x.cands) for x in sy]
    common = set.intersection(*idxsets)
    maps = {id(x): x._map_index() for x in sy}
    base = SymChoice(sel, [(i, i) for i in sorted(common)])

    def at(i):
        aa = [maps[id(x)][i] if isinstance(x, SymChoice) else x for x in a2]
        kk = {k: (maps[id(v)][i] if isinstance(v, SymChoice) else v) for k, v in k2.items()}
        return f(*aa, **kk)
    return base._apply(at)


class CondTag(object):
    """Element yielded by a lazily iterated SymTagSet: the tag text plus its presence condition.
    Only predicate calls the engine knows to be existential (`fnmatchcase(tag, pattern)`, `tag ==
    name`) may consume it; anything else is Unsupported (loud), never silently 'present'."""
    __slots__ = ("text", "cond")

    def __init__(self, text, cond):
        self.text = text
        self.cond = cond

    def holds(self, result):
        if not result:
            return False
        return self.cond

    def __eq__(self, other):
        return self.holds(self.text == other)

    def __ne__(self, other):
        raise Unsupported("CondTag !=")

    def __hash__(self):
        raise Unsupported("hash(CondTag)")

    def __getattr__(self, name):
        if name in ("startswith", "endswith"):
            # Boolean string predicates: true for this element only if the tag is present
            return lambda *a: self.holds(getattr(self.text, name)(*a))
        raise Unsupported("CondTag.%s" % name)

    def __str__(self):
        raise Unsupported("str(CondTag)")


class SymTagSet(object):
    """A set of tags over a finite universe whose membership of each tag is a (z3) Boolean.
    `a in s` is one Bool; iteration case-splits on membership (in universe order), or - with
    lazy=True - yields CondTag elements so that `any tag matches P` loops fork only on matching tags."""

    def __init__(self, universe, member, lazy=False):
        self.universe = list(universe)
        self.member = dict(member)      # name -> SymBool | bool
        self.lazy = lazy

    def copy(self):
        return SymTagSet(self.universe, self.member, self.lazy)

    def sx_contains(self, item):
        if isinstance(item, SymChoice):
            return lift_call(lambda x: self.sx_contains(x), (item,), {})
        m = self.member.get(item, False)
        return m

    def __contains__(self, item):
        return bool(self.sx_contains(item))

    def __iter__(self):
        for t in self.universe:
            m = self.member.get(t, False)
            if self.lazy and isinstance(m, SymBool):
                yield CondTag(t, m)
            elif m:
                yield t

    def _merge(self, other):
        if isinstance(other, SymTagSet):
            for t in other.universe:
                if t not in self.universe:
                    self.universe.append(t)
                a, b = self.member.get(t, False), other.member.get(t, False)
                if a is True or b is True:
                    self.member[t] = True
                elif a is False:
                    self.member[t] = b
                elif b is False:
                    self.member[t] = a
                else:
                    self.member[t] = SymBool(z3.Or(zbool(a), zbool(b)))
        else:
            for t in other:
                if t not in self.universe:
                    self.universe.append(t)
                self.member[t] = True
        return self

    def update(self, *others):
        for o in others:
            self._merge(o)

    def add(self, t):
        self._merge([t])

    def union(self, *others):
        r = self.copy()
        r.update(*others)
        return r

    __or__ = union

    def sx_not(self):
        return SymBool(z3.Not(z3.Or([zbool(m) for m in self.member.values()]))) if self.member else True

    def __bool__(self):
        r = self.sx_not()
        return not (bool(r))

    def __len__(self):
        # the number of tags present: membership of each tag is decided (forks) - a lazy set must not count its
        # conditional elements as present
        n = 0
        for t in self.universe:
            if self.member.get(t, False):
                n += 1
        return n

    def sx_len(self):
        """len() without forking: a symbolic integer (used by the call lifting for len(tagset))."""
        terms = [z3.If(zbool(m), 1, 0) for m in self.member.values()]
        return SymInt(z3.Sum(terms)) if terms else 0

    def __repr__(self):
        return "<SymTagSet %s>" % (self.universe,)


def is_sym(x):
    return isinstance(x, (SymBool, SymInt, SymEnum, SymChoice, SymTagSet))
