"""Harness-facing API: symbols, assumptions, checks; exploration driver; concrete replay."""
import time
import traceback

import z3

from . import core
from .core import (Explorer, SymBool, SymInt, SymEnum, SymChoice, PathAbort, Unsupported,
                   HarnessError, BudgetExceeded, zbool)


class Violation(object):
    def __init__(self, label, assignment, detail=None):
        self.label = label
        self.assignment = assignment
        self.detail = detail
        self.known_id = None

    def to_json(self):
        import json
        try:
            detail = json.loads(json.dumps(self.detail, default=repr))      # plain data only (results cross process borders)
        except Exception as e:      # noqa
            detail = {"unprintable-detail": repr(e)}
        return {"label": self.label, "assignment": self.assignment, "detail": detail,
                "known_id": self.known_id}


class Session(object):
    """One instance per path (symbolic) or per replay (concrete)."""

    def __init__(self, mode, ex=None, assignment=None, params=None):
        self.mode = mode
        self.ex = ex
        self.assignment = assignment or {}
        self.params = params or {}
        self.symbols = []       # (name, kind, var, meta)
        self._names = set()
        self._objs = {}
        self.violations = []
        self.reached = {}       # label -> count
        self.notes = {}

    symbolic = property(lambda self: self.mode == "symbolic")

    # -- symbol constructors -------------------------------------------------------------------
    def _reg(self, name, kind, var, meta=None):
        if name in self._names:
            raise HarnessError("duplicate symbol %s" % name)
        self._names.add(name)
        self.symbols.append((name, kind, var, meta))

    def int(self, name, lo=None, hi=None):
        if name in self._objs:
            return self._objs[name]
        r = self._objs[name] = self._int(name, lo, hi)
        return r

    def bool(self, name):
        if name in self._objs:
            return self._objs[name]
        r = self._objs[name] = self._bool(name)
        return r

    def enum(self, cls, name, domain=None):
        if name in self._objs:
            return self._objs[name]
        r = self._objs[name] = self._enum(cls, name, domain)
        return r

    def choice(self, name, pool):
        if name in self._objs:
            return self._objs[name]
        r = self._objs[name] = self._choice(name, pool)
        return r

    def _int(self, name, lo=None, hi=None):
        if self.mode == "concrete":
            self._names.add(name)
            return int(self.assignment.get(name, lo if lo is not None else 0))
        v = z3.Int(name)
        self._reg(name, "int", v)
        cs = []
        if lo is not None:
            cs.append(v >= lo)
        if hi is not None:
            cs.append(v <= hi)
        if cs:
            self.ex.constrain(z3.And(cs) if len(cs) > 1 else cs[0])
        return SymInt(v)

    def _bool(self, name):
        if self.mode == "concrete":
            return bool(self.assignment.get(name, False))
        v = z3.Bool(name)
        self._reg(name, "bool", v)
        return SymBool(v)

    def _enum(self, cls, name, domain=None):
        domain = list(domain) if domain is not None else list(cls)
        if self.mode == "concrete":
            n = self.assignment.get(name, domain[0].name)
            return cls[n]
        v = core.memo(("var", name), lambda: z3.Int(name))
        self._reg(name, "enum", v, cls)
        self.ex.constrain(core.memo(("dom", name, tuple(m.value for m in domain)),
                                    lambda: z3.Or([v == m.value for m in domain])))
        return SymEnum(cls, v, domain)

    def _choice(self, name, pool):
        pool = list(pool)
        if self.mode == "concrete":
            return pool[int(self.assignment.get(name, 0))]
        v = core.memo(("var", name), lambda: z3.Int(name))
        self._reg(name, "choice", v, pool)
        self.ex.constrain(core.memo(("dom", name, len(pool)), lambda: z3.And(v >= 0, v < len(pool))))
        return SymChoice(v, list(enumerate(pool)))

    # -- assumptions / checks ------------------------------------------------------------------
    def assume(self, cond):
        if self.mode == "concrete":
            if z3.is_expr(cond):
                cond = z3.is_true(z3.simplify(cond))
            if not cond:
                raise PathAbort()
            return
        if isinstance(cond, bool):
            if not cond:
                raise PathAbort()
            return
        self.ex.constrain(zbool(cond))

    def assignment_from(self, model):
        out = {}
        for name, kind, var, meta in self.symbols:
            val = model.eval(var, model_completion=True)
            if kind == "int":
                out[name] = val.as_long()
            elif kind == "bool":
                out[name] = z3.is_true(val)
            elif kind == "enum":
                out[name] = meta(val.as_long()).name
            elif kind == "choice":
                out[name] = val.as_long()
        return out

    def check(self, cond, label, detail=None, known=()):
        """State the oracle.  Returns True when it (definitely) held on this path.

        `known` is a list of (finding_id, formula) pairs: regions of the input space that the
        committed known-findings file lists as genuine, recorded defects.  Only ids that the file
        lists with state "known" are honoured (params["_known_ids"]); a violation inside such a
        region is tagged with the id, anything outside is an ordinary violation."""
        self.reached[label] = self.reached.get(label, 0) + 1
        active = [(k, f) for k, f in known if k in self.params.get("_known_ids", ())]
        if self.mode == "concrete":
            if z3.is_expr(cond):
                cond = z3.is_true(z3.simplify(cond))
            ok = bool(cond)
            if not ok:
                kid = None
                for k, f in active:
                    if z3.is_expr(f):
                        f = z3.is_true(z3.simplify(f))
                    if bool(f):
                        kid = k
                        break
                v = Violation(label, dict(self.assignment), _detail(detail, None))
                v.known_id = kid
                self.violations.append(v)
            return ok
        if isinstance(cond, (SymBool, SymInt, SymChoice)) or z3.is_expr(cond):
            c = zbool(cond)
        elif cond:
            return True
        else:
            c = z3.BoolVal(False)
        ok = True
        excl = [zbool(f) for _, f in active]
        m = self.ex.model_for(z3.Not(c), *[z3.Not(f) for f in excl])
        if m is not None:
            ok = False
            v = Violation(label, self.assignment_from(m), _detail(detail, m))
            v.known_id = None
            self.violations.append(v)
        for (k, _), f in zip(active, excl):
            m = self.ex.model_for(z3.Not(c), f)
            if m is not None:
                ok = False
                v = Violation(label, self.assignment_from(m), _detail(detail, m))
                v.known_id = k
                self.violations.append(v)
        return ok

    def witness(self):
        if self.mode == "concrete":
            return dict(self.assignment)
        m = self.ex.model_for()
        return self.assignment_from(m)

    def eval(self, x, model):
        """Value of a possibly symbolic scalar under a model."""
        if isinstance(x, SymBool):
            return z3.is_true(model.eval(x.e, model_completion=True))
        if isinstance(x, SymInt):
            return model.eval(x.e, model_completion=True).as_long()
        if isinstance(x, SymEnum):
            return x._cls(model.eval(x.e, model_completion=True).as_long()).name
        if isinstance(x, SymChoice):
            i = model.eval(x.sel, model_completion=True).as_long()
            return dict(x.cands)[i]
        return x

    def concretize_int(self, x, lo, hi):
        """Fork over lo..hi until the value of a (symbolic) integer is fixed."""
        if not isinstance(x, SymInt):
            return x
        for v in range(lo, hi + 1):
            if x == v:
                return v
        raise HarnessError("concretize_int: value outside [%d, %d]" % (lo, hi))

    def note(self, key, value=1):
        self.notes[key] = value


def _detail(detail, model):
    if callable(detail):
        try:
            return detail(model)
        except Exception as e:      # noqa
            return "detail failed: %r" % (e,)
    return detail


class Result(object):
    def __init__(self):
        self.paths = 0
        self.aborted = 0
        self.queries = 0
        self.solver_s = 0.0
        self.wall_s = 0.0
        self.nodes = 0
        self.exhausted = False
        self.closure = None
        self.violations = []        # Violation
        self.traces = []            # (assignment, observable) per completed path
        self.reached = {}
        self.notes = {}
        self.inconclusive = None    # reason string
        self.error = None

    def merge_counts(self, other):
        for k, v in other.items():
            self.reached[k] = self.reached.get(k, 0) + v


def explore(harness, params=None, max_paths=200000, budget_s=None, want_traces=True,
            max_violations=50, closure=True):
    """Run `harness(sx)` over all feasible paths.  The harness returns an *observable* (JSON-able,
    concrete) used for translation validation against the uninstrumented package."""
    res = Result()
    t0 = time.time()
    deadline = t0 + budget_s if budget_s else None
    ex = Explorer(max_paths=max_paths, deadline=deadline)
    per_kind = {}
    core._CUR = ex
    core._MEMO.clear()
    try:
        while not ex.exhausted():
            if ex.paths >= max_paths:
                res.inconclusive = "path budget %d exhausted" % max_paths
                break
            if deadline and time.time() > deadline:
                res.inconclusive = "time budget %.0fs exhausted" % budget_s
                break
            ex.start_path()
            sx = Session("symbolic", ex=ex, params=params)
            try:
                obs = harness(sx)
            except PathAbort:
                ex.end_path(ok=False)
                continue
            except Unsupported as e:
                res.inconclusive = "unsupported: %s\n%s" % (e, "".join(traceback.format_tb(e.__traceback__)[-6:]))
                break
            except HarnessError as e:
                res.error = "harness error: %s\n%s" % (e, "".join(traceback.format_tb(e.__traceback__)[-6:]))
                break
            if want_traces:
                try:
                    res.traces.append((sx.witness(), obs))
                except Unsupported as e:
                    res.inconclusive = "unsupported: %s" % (e,)
                    break
            # the cap is per (check label, known-finding id): hits of one kind (e.g. a listed known finding) never
            # crowd out a violation of another kind found later in the exploration
            for v in sx.violations:
                key = (v.label, getattr(v, "known_id", None))
                n_ = per_kind.get(key, 0)
                if n_ < max_violations:
                    res.violations.append(v)
                    per_kind[key] = n_ + 1
                else:
                    res.notes["violations_truncated"] = True
            res.merge_counts(sx.reached)
            for k, v in sx.notes.items():
                res.notes[k] = res.notes.get(k, 0) + v if isinstance(v, int) else v
            ex.end_path(ok=True)
        res.exhausted = ex.exhausted()
        if res.exhausted and closure:
            res.closure = ex.closure_query()
            if res.closure == "GAP":
                res.error = "closure query found an uncovered region (explorer bug)"
    finally:
        core._CUR = None
    res.paths = ex.paths
    res.aborted = ex.aborted_paths
    res.queries = ex.queries
    res.solver_s = ex.solver_time
    res.nodes = ex.nodes
    res.wall_s = time.time() - t0
    return res


def run_concrete(harness, assignment, params=None):
    """Run the harness once on plain Python values (replay / translation validation)."""
    sx = Session("concrete", assignment=assignment, params=params)
    try:
        obs = harness(sx)
    except PathAbort:
        return {"aborted": True, "obs": None, "violations": []}
    return {"aborted": False, "obs": obs, "violations": [v.to_json() for v in sx.violations]}
