"""symx - solver-backed native symbolic execution of the real behave code (see DESIGN.md section 2)."""
from .core import (SymBool, SymInt, SymEnum, SymChoice, SymTagSet, PathAbort, Unsupported, HarnessError,
                   zbool, is_sym, lift_call, sel_in)
from .session import Session, explore, run_concrete, Result, Violation
from .instr import install, installed, STATS
