"""Rich abstract Gherkin trees -> (a) lines with symbolic variants (keyword alias, indentation, cell
padding, blank/comment fillers) and (b) the expected model, computed from the tree alone (the
oracle of C04; also the source of valid documents for fault injection in C05).

tree (feature) = {"name", "tags": [[..line1..], [..line2..]] or [..], "desc": [..], "bg": {"name","desc","steps"}|None,
                  "items": [scenario|outline|rule]}
scenario = {"k": "s", "name", "tags", "desc", "steps": [step]}
outline  = {"k": "o", "name", "tags", "desc", "steps": [step], "examples": [{"name","tags","table": [[h..],[r..],..]}]}
rule     = {"k": "r", "name", "tags", "desc", "bg", "items"}
step     = {"kw": given|when|then|and|but|star, "text", "doc": [lines]|None, "quote": '\"\"\"'|"'''", "table": [[..],..]|None}
"""

STEP_KINDS = ("given", "when", "then", "and", "but")


class Line(object):
    def __init__(self, variants, kind, **meta):
        self.variants = list(variants)
        self.kind = kind
        self.meta = meta


def _dedup(xs):
    seen = set()
    out = []
    for x in xs:
        if x not in seen:
            seen.add(x)
            out.append(x)
    return out


class Renderer(object):
    def __init__(self, lang="en", indents=("", "  ", "\t "), fillers=0, max_alias=3, header=False, trailing=("", "  ")):
        from behave import i18n
        self.kw = i18n.languages[lang]
        self.lang = lang
        self.indents = list(indents)
        self.fillers = fillers
        self.max_alias = max_alias
        self.trailing = list(trailing)
        self.lines = []
        if header:
            self.emit(["# language: %s" % lang, "#language:%s" % lang, "  # language: %s  " % lang], "language")

    # -- helpers
    def emit(self, variants, kind, **meta):
        self.lines.append(Line(_dedup(variants), kind, **meta))
        return len(self.lines)

    def filler(self):
        for _ in range(self.fillers):
            self.emit(["", "   ", "# a comment", "   # Feature: not a feature", "#"], "filler")

    def aliases(self, key):
        al = [a for a in self.kw[key] if a.strip() != "*"]
        return al[:self.max_alias] if self.max_alias else al

    def kwline(self, key, name, **meta):
        vs = []
        for a in self.aliases(key):
            for ind in self.indents:
                for tr in self.trailing:
                    vs.append(ind + a + ":" + (" " + name if name else "") + tr)
                if name:
                    vs.append(ind + a + ":" + name)        # no blank after the colon
        return self.emit(vs, key, aliases=self.aliases(key), **meta)

    def taglines(self, tags):
        """tags: list of str, or list of lists (several tag lines)."""
        if not tags:
            return []
        groups = tags if isinstance(tags[0], list) else [tags]
        flat = []
        for g in groups:
            base = " ".join("@" + t for t in g)
            vs = []
            for ind in self.indents:
                vs += [ind + base, ind + base + "  # trailing comment", ind + "  ".join("@" + t for t in g) + " "]
            self.emit(vs, "tags")
            flat.extend(g)
        return flat

    def desc(self, lines):
        for d in lines or []:
            self.emit([ind + d + tr for ind in self.indents for tr in self.trailing], "description")
        return [d.strip() for d in (lines or [])]

    def step_variants(self, kind, text):
        """Keyword aliases of `kind` that no earlier step kind would claim (parse order given..but)."""
        out = []
        if kind == "star":
            # (two languages of the table - sl, en-tx - have no generic "*" keyword)
            cands = ["* "] if any(a.strip() == "*" for a in self.kw["given"]) else []
        else:
            cands = [a for a in self.kw[kind] if a.strip() != "*"]
        order = STEP_KINDS
        for a in cands:
            full = a + text
            ambiguous = False
            if kind != "star":
                for other in order[:order.index(kind)]:
                    for b in self.kw[other]:
                        if b.strip() != "*" and (full.startswith(b) or full.lower().startswith(b.lower())):
                            ambiguous = True
                # a generic "* " alias of an earlier kind never matches a worded alias
            if not ambiguous:
                out.append(a)
        return out[:self.max_alias] if self.max_alias else out

    def steps(self, steps, prev_bg_type):
        """Emit step lines; returns expected step dicts.  prev_bg_type: type an initial And/But inherits."""
        exp = []
        last = None
        for st in steps:
            kind = st["kw"]
            als = self.step_variants(kind, st["text"])
            if not als:
                raise ValueError("no unambiguous alias for %s in %s" % (kind, self.lang))
            vs = []
            for a in als:
                for ind in self.indents:
                    for tr in self.trailing:
                        vs.append(ind + a + st["text"] + tr)
            ln = self.emit(vs, "step", aliases=[a.rstrip() for a in als])
            if kind in ("given", "when", "then"):
                stype = kind
                last = kind
            elif kind == "star":
                if last is None:
                    last = "given"      # a generic step without predecessor counts as Given
                stype = last
            else:
                if last is None:
                    last = prev_bg_type
                if last is None:
                    raise ValueError("And/But without predecessor in a *valid* tree")
                stype = last
            e = {"line": ln, "type": stype, "name": st["text"].strip(), "keywords": [a.rstrip() for a in als], "text": None, "table": None}
            if st.get("doc") is not None:
                q = st.get("quote", '"""')
                col = "      "
                self.emit([col + q, col + q + " "], "doc-open")
                e["text_line"] = len(self.lines)
                for d in st["doc"]:
                    self.emit([col + d, col + d + "   "], "doc-line")
                # (the closing delimiter need not be aligned with the opening one)
                self.emit([col + q, col + q + "  ", col + "  " + q, col[:-2] + q], "doc-close")
                e["text"] = "\n".join(d.rstrip() for d in st["doc"])
            if st.get("table") is not None:
                e["table"] = self.table(st["table"])
            exp.append(e)
        return exp, last

    def table(self, rows):
        out = []
        for k, r in enumerate(rows):
            if k and self.fillers:
                # blank / comment lines BETWEEN table rows (the parser skips them; row line numbers must not)
                self.emit(["", "      # | commented | row |", "   "], "filler")
            plain = "| " + " | ".join(c.replace("|", "\\|") for c in r) + " |"
            tight = "|" + "|".join(c.replace("|", "\\|") for c in r) + "|"
            wide = "|   " + "   |  ".join(c.replace("|", "\\|") for c in r) + "  |"
            vs = []
            for ind in self.indents:
                vs += [ind + "    " + plain, ind + tight + " ", ind + wide]
            ln = self.emit(vs, "table-row", cols=len(r))
            out.append({"line": ln, "cells": [c.strip() for c in r]})
        return {"headings": out[0]["cells"], "line": out[0]["line"], "rows": out[1:]}

    # -- structure
    def background(self, bg, inherited_type):
        if bg is None:
            return None, None
        self.filler()
        ln = self.kwline("background", bg.get("name", ""))
        d = self.desc(bg.get("desc"))
        steps, last = self.steps(bg.get("steps", []), inherited_type)
        return {"line": ln, "name": bg.get("name", ""), "desc": d, "steps": steps}, (last or inherited_type)

    def items(self, its, bg_type):
        out = []
        for it in its:
            self.filler()
            if it["k"] == "r":
                tags = self.taglines(it.get("tags"))
                ln = self.kwline("rule", it["name"])
                d = self.desc(it.get("desc"))
                rbg, rtype = self.background(it.get("bg"), bg_type)
                sub = self.items(it["items"], rtype if it.get("bg") else bg_type)
                out.append({"k": "r", "line": ln, "name": it["name"], "tags": tags, "desc": d, "bg": rbg, "items": sub})
            elif it["k"] == "s":
                tags = self.taglines(it.get("tags"))
                ln = self.kwline("scenario", it["name"])
                d = self.desc(it.get("desc"))
                steps, _ = self.steps(it["steps"], bg_type)
                out.append({"k": "s", "line": ln, "name": it["name"], "tags": tags, "desc": d, "steps": steps})
            else:
                tags = self.taglines(it.get("tags"))
                ln = self.kwline("scenario_outline", it["name"])
                d = self.desc(it.get("desc"))
                steps, _ = self.steps(it["steps"], bg_type)
                exs = []
                for ex in it["examples"]:
                    self.filler()
                    xt = self.taglines(ex.get("tags"))
                    xl = self.kwline("examples", ex.get("name", ""))
                    tb = self.table(ex["table"]) if ex.get("table") else None
                    exs.append({"line": xl, "name": ex.get("name", ""), "tags": xt, "table": tb})
                out.append({"k": "o", "line": ln, "name": it["name"], "tags": tags, "desc": d, "steps": steps, "examples": exs})
        return out

    def feature(self, tree):
        self.filler()
        tags = self.taglines(tree.get("tags"))
        ln = self.kwline("feature", tree["name"])
        d = self.desc(tree.get("desc"))
        bg, btype = self.background(tree.get("bg"), None)
        its = self.items(tree["items"], btype)
        self.filler()
        return {"line": ln, "name": tree["name"], "tags": tags, "desc": d, "bg": bg, "items": its, "language": self.lang}


def render(tree, **kw):
    r = Renderer(**kw)
    exp = r.feature(tree)
    return r.lines, exp


# ----------------------------------------------------------------------------------------------
# a few trees
# ----------------------------------------------------------------------------------------------
def st(kw, text, doc=None, table=None, quote='"""'):
    return {"kw": kw, "text": text, "doc": doc, "table": table, "quote": quote}


TREES = {
    "basic": {"name": "Basic feature", "tags": ["f1", "f.two"], "desc": ["As a user", "I want: things"], "bg": None, "items": [
        {"k": "s", "name": "First", "tags": ["s1", "iss#7", "last"], "desc": [], "steps": [st("given", "a thing"), st("when", "I act"), st("then", "it works"),
                                                                             st("and", "more"), st("but", "not this")]},
        {"k": "s", "name": "Second: with colon", "tags": [], "desc": ["some description"], "steps": [st("star", "generic first"), st("when", "x"), st("star", "generic after when")]},
    ]},
    "bg-rule": {"name": "With backgrounds", "tags": [["ft1"], ["ft2", "ft3"]], "desc": [], "bg": {"name": "fb", "steps": [st("given", "fb1"), st("and", "fb2")]}, "items": [
        {"k": "s", "name": "uses bg type", "tags": [], "desc": [], "steps": [st("and", "inherits given from background"), st("then", "t")]},
        {"k": "s", "name": "ends with then", "tags": ["x"], "desc": [], "steps": [st("when", "w"), st("then", "t2")]},
        {"k": "r", "name": "R1", "tags": ["r"], "desc": ["rule text"], "bg": {"name": "", "steps": [st("star", "rule bg star first"), st("and", "rule bg and")]}, "items": [
            {"k": "s", "name": "in rule", "tags": [["a"], ["b", "c"]], "desc": [], "steps": [st("but", "inherits from rule bg"), st("when", "w2")]},
        ]},
        {"k": "r", "name": "R2 no bg", "tags": [], "desc": [], "bg": None, "items": [
            {"k": "s", "name": "in rule 2", "tags": [], "desc": [], "steps": [st("and", "inherits feature bg type"), st("then", "z")]},
        ]},
        {"k": "r", "name": "R3 own bg ends with another type", "tags": [], "desc": [], "bg": {"name": "", "steps": [st("when", "rule bg when"), st("and", "rule bg and 2")]}, "items": [
            {"k": "s", "name": "in rule 3", "tags": [], "desc": [], "steps": [st("and", "inherits when from the rule bg, not given from the feature bg"), st("then", "z3")]},
        ]},
    ]},
    "outline": {"name": "Outlines", "tags": ["o"], "desc": [], "bg": None, "items": [
        {"k": "o", "name": "Template <a>", "tags": ["t", "p.<a>"], "desc": ["outline description"], "steps": [
            st("given", "a <a> thing", table=[["h1", "h2"], ["<a>", ""], ["x|y", "<b>"]]),
            st("when", "doc follows:", doc=["line one <b>", "  indented", "", '"""', "last"], quote="'''"),
            st("then", "done")],
         "examples": [{"name": "Ex one", "tags": ["e1"], "table": [["a", "b"], ["1", "2"], ["", "x y"]]},
                      {"name": "", "tags": [["e2"], ["e3"]], "table": [["b", "a"], ["3", "4"]]}]},
        {"k": "s", "name": "after outline", "tags": [], "desc": [], "steps": [st("given", "g", doc=["only", "'''", "Scenario: no", "| c |", "@t # x"]), st("and", "a2", table=[["c"], ["1"], ["2"]])]},
    ]},
    "mixed": {"name": "Mixed order", "tags": [], "desc": [], "bg": None, "items": [
        {"k": "s", "name": "plain first", "tags": [], "desc": [], "steps": [st("given", "g1"), st("then", "t1")]},
        {"k": "o", "name": "outline after scenario", "tags": ["o1"], "desc": [], "steps": [st("star", "generic first in outline"), st("when", "w <v>")],
         "examples": [{"name": "", "tags": [], "table": [["v"], ["1"]]}]},
        {"k": "s", "name": "plain after outline", "tags": [], "desc": ["text"], "steps": [st("when", "w9"), st("and", "a9")]},
        {"k": "r", "name": "Rule without background", "tags": [], "desc": [], "bg": None, "items": [
            {"k": "o", "name": "outline in rule", "tags": [], "desc": [], "steps": [st("star", "generic in rule outline"), st("then", "t <v>")],
             "examples": [{"name": "E", "tags": ["x"], "table": [["v"], ["2"], ["3"]]}]},
            {"k": "s", "name": "last", "tags": [], "desc": [], "steps": [st("star", "generic last")]},
        ]},
    ]},
    "o-o": {"name": "Outline after outline", "tags": [], "desc": [], "bg": None, "items": [
        {"k": "o", "name": "first outline", "tags": [], "desc": [], "steps": [st("given", "g <n>")],
         "examples": [{"name": "", "tags": [], "table": [["n"], ["1"]]}]},
        {"k": "o", "name": "second outline, step table", "tags": ["t2"], "desc": [], "steps": [st("given", "users", table=[["name", "role"], ["<n>", "admin"]]), st("then", "t <n>")],
         "examples": [{"name": "E2", "tags": [], "table": [["n"], ["7"], ["8"]]}]},
        {"k": "r", "name": "Rule with background table after outline", "tags": [], "desc": [],
         "bg": {"name": "", "steps": [st("given", "rule bg", table=[["k"], ["v"]])]}, "items": [
            {"k": "s", "name": "in rule", "tags": [], "desc": [], "steps": [st("when", "w1")]},
        ]},
    ]},
    "o-rule": {"name": "Rule after outline", "tags": [], "desc": [], "bg": None, "items": [
        {"k": "s", "name": "first", "tags": [], "desc": [], "steps": [st("given", "g1")]},
        {"k": "o", "name": "outline before rule", "tags": [], "desc": [], "steps": [st("given", "g <v>")],
         "examples": [{"name": "", "tags": [], "table": [["v"], ["1"]]}]},
        {"k": "r", "name": "R after outline", "tags": ["rt"], "desc": ["rule description"], "bg": None, "items": [
            {"k": "s", "name": "in rule", "tags": [], "desc": [], "steps": [st("when", "w1")]},
            {"k": "o", "name": "outline in rule", "tags": [], "desc": [], "steps": [st("then", "t <v>")],
             "examples": [{"name": "E", "tags": [], "table": [["v"], ["2"]]}]},
        ]},
        {"k": "r", "name": "R after outline in rule", "tags": [], "desc": [], "bg": None, "items": [
            {"k": "s", "name": "last", "tags": [], "desc": [], "steps": [st("given", "g9")]},
        ]},
    ]},
}
