"""Check driver: ./check <ID> [--tier quick|thorough]  |  ./check --replay <file>

Exit codes: 0 held on everything explored (KNOWN-FINDING lines possible) · 1 VIOLATION ·
2 inconclusive (budget / unknown / unsupported / vacuity floor) · 3 harness error (e.g. a
counterexample that does not replay on the uninstrumented package)."""
import argparse
import importlib
import json
import os
import sys
import time

HERE = os.path.dirname(os.path.dirname(os.path.abspath(__file__)))


def main(argv=None):
    ap = argparse.ArgumentParser()
    ap.add_argument("prop", nargs="?")
    ap.add_argument("--tier", default=os.environ.get("VERIF_TIER") or "quick")
    ap.add_argument("--replay")
    ap.add_argument("--only", help="substring filter on job names (debugging)")
    ap.add_argument("--workers", type=int, default=int(os.environ.get("VERIF_WORKERS", "0")) or None)
    ap.add_argument("--no-evidence", action="store_true")
    args = ap.parse_args(argv)
    if args.tier not in ("quick", "thorough"):
        args.tier = "quick"
    try:
        seed = int(os.environ.get("VERIF_SEED", "0") or 0)
    except ValueError:
        seed = 0
    if args.replay:
        from . import replay
        return replay.replay_file(args.replay)
    if not args.prop:
        ap.error("property id required")
    from . import runner
    return runner.run_property(args.prop.upper(), args.tier, seed, only=args.only,
                               workers=args.workers, write_evidence=not args.no_evidence)


if __name__ == "__main__":
    sys.exit(main())
