"""Symbolic Gherkin documents: a document is a list of lines, each line a SymChoice over a finite
alphabet (or a concrete str).  The parser's own predicates partition the alphabet, so paths follow
the parser's behaviour classes, not |alphabet|^K."""
import symx


class Doc(object):
    """Stands for the text handed to the parser; only splitlines() is ever used on it by behave."""

    def __init__(self, lines):
        self.lines = list(lines)

    def splitlines(self):
        return list(self.lines)

    def sx_isinstance(self, t):
        ts = t if isinstance(t, tuple) else (t,)
        return any(tt is str or tt is object for tt in ts)

    def sx_not(self):
        return not self.lines

    def __bool__(self):
        return bool(self.lines)


def make_text(sx, lines):
    """symbolic mode: a Doc of proxies; concrete mode: a real str."""
    if sx.symbolic:
        return Doc(lines)
    return "\n".join(lines)


def sigma(lang="en", hostile=True, big=False, small=False):
    """Line alphabet generated from the live keyword table of behave.i18n."""
    from behave import i18n
    kw = i18n.languages[lang]
    out = []
    if small:
        # one alias-free representative per line kind + the hostile lines (used for deeper K)
        for k in ("feature", "rule", "background", "scenario", "scenario_outline", "examples"):
            out.append(kw[k][0] + ": x")
        out.append("  " + kw["scenario"][-1] + ":")
        for k in ("given", "when", "then", "and", "but"):
            out.append("  " + kw[k][-1] + "a step")
        out += ["* x", "@t1 @t2 # c", "# comment", "| a | b |", "| 1 | 2 |", "| 1 |", '"""', "    text", "free text",
                "@t1 bad", "# language: zz", "# language:", "| a", "Feature", "\t"]
        return out
    indents = ["", "  "] + (["\t", "      "] if big else [])
    names = ["", " x"] + ([" Name with: colon", " <p>"] if big else [])
    for k in ("feature", "rule", "background", "scenario", "scenario_outline", "examples"):
        for alias in kw[k]:
            for ind in indents:
                for name in names:
                    out.append(ind + alias + ":" + name)
    for k in ("given", "when", "then", "and", "but"):
        for alias in kw[k]:
            for ind in indents[:2]:
                for name in (["a step", ""] if not big else ["a step", "", "step with <p>", "x:"]):
                    out.append(ind + alias + name)
    out += ["@t1", "  @t1 @t2 # comment", "@t1 @t2", "# comment", "  # language: %s" % lang,
            "| a |", "  | a | b |", "| 1 | 2 |", "| \\| |", "||", "| |", '"""', "  '''", "    text", "free text", "x", " "]
    if hostile:
        out += ["@t1 bad", "@", "# language: zz", "#language:de", "# language:", "#language: ", "# language: de (German)", "| 1 | 2 | 3 |", "|", "| a", '""" trailing', "Feature", "Scenario Outline",
                "Examples", "Given", "*", "* x", "<x>", "@t1@t2", "\t", "|a|b|", "  text less indented"]
    # de-duplicate keeping order
    seen = set()
    res = []
    for l in out:
        if l not in seen:
            seen.add(l)
            res.append(l)
    return res
