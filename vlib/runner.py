"""Runs the jobs of one property, validates traces and counterexamples against the uninstrumented
package, applies the known-findings file, writes evidence, decides the exit code."""
import hashlib
import importlib
import json
import multiprocessing as mp
import os
import random
import subprocess
import sys
import time
import traceback

HERE = os.path.dirname(os.path.dirname(os.path.abspath(__file__)))
EVID = os.path.join(HERE, "evidence")
REPLAYS = os.path.join(EVID, "replays")
PY = "/venv/bin/python"


class Job(object):
    def __init__(self, name, harness, params=None, max_paths=200000, budget_s=600,
                 min_paths=1, reach=(), validate=200, cost=1, closure=True):
        self.name = name
        self.harness = harness      # "props.cXX:function"
        self.params = params or {}
        self.max_paths = max_paths
        self.budget_s = budget_s
        self.min_paths = min_paths
        self.reach = list(reach)
        self.validate = validate
        self.cost = cost
        self.closure = closure


def load_harness(spec):
    modname, fn = spec.split(":")
    mod = importlib.import_module(modname)
    return getattr(mod, fn)


def _canon(x):
    return json.loads(json.dumps(x, sort_keys=True, default=repr))


def _run_job(job):
    import symx
    t0 = time.time()
    out = {"name": job.name, "harness": job.harness, "params": job.params}
    try:
        fn = load_harness(job.harness)
        res = symx.explore(fn, params=job.params, max_paths=job.max_paths, budget_s=job.budget_s,
                           closure=job.closure)
    except BaseException as e:      # noqa
        out.update(error="worker crashed: %r\n%s" % (e, traceback.format_exc()[-3000:]), paths=0,
                   queries=0, solver_s=0.0, wall_s=time.time() - t0, violations=[], traces=[],
                   reached={}, notes={}, exhausted=False, closure=None, inconclusive=None, nodes=0,
                   aborted=0, n_traces=0)
        return out
    traces = res.traces
    n_tr = len(traces)
    if job.validate != "all" and n_tr > job.validate:
        rnd = random.Random(1234)
        idx = sorted(rnd.sample(range(n_tr), job.validate))
        traces = [traces[i] for i in idx]
    out.update(paths=res.paths, aborted=res.aborted, queries=res.queries, solver_s=res.solver_s,
               wall_s=res.wall_s, nodes=res.nodes, exhausted=res.exhausted, closure=res.closure,
               inconclusive=res.inconclusive, error=res.error,
               violations=[v.to_json() for v in res.violations],
               traces=[(a, _canon(o)) for a, o in traces], n_traces=n_tr,
               reached=res.reached, notes=_canon(res.notes))
    return out


def concrete_batch(harness, params, assignments, timeout=1800):
    """Run assignments through the harness in concrete mode in a fresh *uninstrumented* interpreter."""
    env = dict(os.environ)
    env["PYTHONPATH"] = os.pathsep.join(([os.environ["VERIF_REPO"]] if os.environ.get("VERIF_REPO") else []) +
                                        [HERE, os.path.join(HERE, ".deps")])
    env["PYTHONDONTWRITEBYTECODE"] = "1"
    env.pop("SYMX_INSTRUMENT", None)
    p = subprocess.run([PY, "-m", "vlib.replay", "--batch"], input=json.dumps(
        {"harness": harness, "params": params, "assignments": assignments}),
        capture_output=True, text=True, env=env, cwd=HERE, timeout=timeout)
    if p.returncode != 0:
        raise RuntimeError("concrete replay process failed (%d): %s" % (p.returncode, p.stderr[-3000:]))
    line = [l for l in p.stdout.splitlines() if l.startswith("@@RESULT@@")]
    if not line:
        raise RuntimeError("concrete replay gave no result: %s\n%s" % (p.stdout[-1000:], p.stderr[-2000:]))
    return json.loads(line[-1][len("@@RESULT@@"):])


def _validate_chunk(args):
    harness, params, chunk = args
    try:
        outs = concrete_batch(harness, params, [a for a, _ in chunk])
    except Exception as e:      # noqa
        return {"error": str(e), "checked": 0, "mismatches": []}
    mism = []
    for (a, o), r in zip(chunk, outs):
        if r.get("aborted"):
            mism.append({"assignment": a, "symbolic": o, "concrete": "ABORTED(assume false)"})
        elif _canon(r["obs"]) != o:
            mism.append({"assignment": a, "symbolic": o, "concrete": r["obs"]})
    return {"checked": len(chunk), "mismatches": mism[:5], "error": None}


def load_known(prop):
    path = os.path.join(HERE, "known_findings.json")
    if not os.path.exists(path):
        return []
    with open(path) as f:
        data = json.load(f)
    return [e for e in data.get("findings", []) if e.get("property") == prop]


def sources_fingerprint(stats):
    return {m: {"sha": s["sha"], "sites": s["sites"], "call_lifting": s["call_lifting"]}
            for m, s in sorted(stats.items())}


def run_property(prop, tier, seed, only=None, workers=None, write_evidence=True):
    t0 = time.time()
    modname = "props.%s" % prop.lower()
    import symx
    # the property module declares its instrumentation profile before behave is imported
    spec_mod = importlib.import_module(modname + "_meta") if False else None
    pmod_src = os.path.join(HERE, "props", prop.lower() + ".py")
    if not os.path.exists(pmod_src):
        print("unknown property %s" % prop)
        return 3
    profile = _read_profile(pmod_src)
    symx.install(call_profile=profile)
    pmod = importlib.import_module(modname)
    jobs = pmod.jobs(tier, seed)
    known = load_known(prop)
    known_ids = sorted(e["id"] for e in known if e.get("state") == "known")
    for j in jobs:
        j.params = dict(j.params, _known_ids=known_ids)
    if only:
        jobs = [j for j in jobs if only in j.name]
        if not jobs:
            print("%s: --only %r selects no job -> inconclusive" % (prop, only))
            return 2
    nworkers = workers or min(16, max(1, len(jobs)))
    jobs_sorted = sorted(jobs, key=lambda j: -j.cost)
    results = []
    if nworkers == 1 or len(jobs_sorted) == 1:
        results = [_run_job(j) for j in jobs_sorted]
    else:
        ctx = mp.get_context("fork")
        with ctx.Pool(nworkers, maxtasksperchild=1) as pool:
            results = pool.map(_run_job, jobs_sorted, chunksize=1)
    jobmap = {j.name: j for j in jobs}

    status = 0
    messages = []

    def worse(code, msg):
        nonlocal status
        messages.append(msg)
        # a violation that replayed on the uninstrumented package in a fresh interpreter (1) outranks harness errors (3):
        # trace mismatches are then usually a symptom of the same defect (state leaking between paths)
        order = {0: 0, 2: 1, 3: 2, 1: 3}
        if order[code] > order[status]:
            status = code

    # -- side obligations (SMT-LIB queries, second engine)
    extras = []
    if hasattr(pmod, "extras") and not only:
        try:
            extras = pmod.extras(tier, seed) or []
        except Exception as e:     # noqa
            worse(3, "extras crashed: %r\n%s" % (e, traceback.format_exc()[-2000:]))
    for ob in extras:
        if ob["verdict"] == "inconclusive":
            worse(2, "side obligation %s inconclusive: %s" % (ob["name"], ob.get("detail")))
        elif ob["verdict"] == "error":
            worse(3, "side obligation %s error: %s" % (ob["name"], ob.get("detail")))

    # -- engine-level outcomes
    for r in results:
        j = jobmap[r["name"]]
        if r.get("error"):
            worse(3, "job %s: %s" % (r["name"], r["error"]))
        elif r.get("inconclusive"):
            worse(2, "job %s inconclusive: %s" % (r["name"], r["inconclusive"]))
        elif not r["exhausted"]:
            worse(2, "job %s not exhausted" % r["name"])
        else:
            if j.closure and r["closure"] not in ("covered",) and not str(r["closure"]).startswith("skipped"):
                worse(2, "job %s closure query: %s" % (r["name"], r["closure"]))
            if r["paths"] < j.min_paths:
                worse(2, "job %s vacuity floor: %d paths < %d" % (r["name"], r["paths"], j.min_paths))
            for lab in j.reach:
                if not r["reached"].get(lab):
                    worse(2, "job %s vacuity: check %r never reached (reachability twin not violated)"
                          % (r["name"], lab))

    # -- translation validation of traces on the uninstrumented package
    validated = 0
    tasks = []
    for r in results:
        tr = r.get("traces") or []
        if not tr:
            continue
        csize = max(1, min(400, (len(tr) + 15) // 16))
        for i in range(0, len(tr), csize):
            tasks.append((r["harness"], r["params"], tr[i:i + csize]))
    if tasks and status != 3:
        ctx = mp.get_context("fork")
        with ctx.Pool(min(16, len(tasks))) as pool:
            vres = pool.map(_validate_chunk, tasks, chunksize=1)
        for v in vres:
            if v["error"]:
                worse(3, "trace validation failed to run: %s" % v["error"])
            validated += v["checked"]
            for m in v["mismatches"]:
                worse(3, "TRACE MISMATCH (instrumented vs uninstrumented): %s" % json.dumps(m)[:1500])

    # -- violations: replay, classify
    classifiers = getattr(pmod, "CLASSIFIERS", {})
    os.makedirs(REPLAYS, exist_ok=True)
    viols = []
    for r in results:
        for v in r["violations"]:
            viols.append((r, v))
    for ob in extras:
        if ob["verdict"] == "violated":
            viols.append(({"name": "extra:" + ob["name"], "harness": ob.get("replay_harness"),
                           "params": ob.get("replay_params", {})},
                          {"label": ob["name"], "assignment": ob.get("assignment", {}),
                           "detail": ob.get("detail")}))
    known_hits = {}
    unknown = []
    for r, v in viols:
        hit = None
        if v.get("known_id"):
            hit = [e for e in known if e["id"] == v["known_id"]][0]
        for e in known:
            if hit or e.get("state") != "known" or not e.get("classifier"):
                continue
            fn = classifiers.get(e["classifier"])
            if fn is None:
                worse(3, "known finding %s names unknown classifier %s" % (e["id"], e["classifier"]))
                continue
            try:
                if fn({"job": r["name"], "params": r["params"], "label": v["label"],
                       "assignment": v["assignment"], "detail": v["detail"]}, e.get("params", {})):
                    hit = e
                    break
            except Exception as ex:     # noqa
                worse(3, "classifier %s crashed: %r" % (e["classifier"], ex))
        if hit:
            known_hits.setdefault(hit["id"], []).append((r, v))
        else:
            unknown.append((r, v))

    def confirm(r, v):
        """Replay on the uninstrumented package; True if the same check fails there."""
        if not r.get("harness"):
            return v.get("detail", {}).get("replayed", False) if isinstance(v.get("detail"), dict) else False
        outs = concrete_batch(r["harness"], r["params"], [v["assignment"]])
        o = outs[0]
        return (not o.get("aborted")) and any(x["label"] == v["label"] for x in o["violations"])

    n_viol = 0
    reported = set()
    for fid, lst in sorted(known_hits.items()):
        e = [x for x in known if x["id"] == fid][0]
        r, v = lst[0]
        try:
            ok = confirm(r, v)
        except Exception as ex:     # noqa
            ok = False
            worse(3, "replay of known finding %s crashed: %s" % (fid, ex))
        if not ok:
            worse(3, "known finding %s: counterexample did not replay on the uninstrumented package "
                     "(job %s label %s)" % (fid, r["name"], v["label"]))
        else:
            print("KNOWN-FINDING: property=%s %s [%s] (%d path(s), e.g. job=%s %s)" % (
                prop, e["description"], fid, len(lst), r["name"], json.dumps(v["assignment"])[:200]))
    seen_groups = {}
    for r, v in unknown:
        g = (r["name"], v["label"])
        seen_groups.setdefault(g, []).append((r, v))
    for g, lst in sorted(seen_groups.items()):
        for r, v in lst[:2]:
            try:
                ok = confirm(r, v)
            except Exception as ex:     # noqa
                ok = False
                worse(3, "replay crashed: %s" % ex)
            rec = {"property": prop, "job": r["name"], "harness": r.get("harness"), "params": r["params"],
                   "label": v["label"], "assignment": v["assignment"], "detail": v["detail"]}
            if not ok:
                worse(3, "counterexample did not replay on the uninstrumented package: %s"
                      % json.dumps(rec, default=repr)[:2000])
                continue
            n_viol += 1
            h = hashlib.sha1(json.dumps(rec, sort_keys=True, default=repr).encode()).hexdigest()[:10]
            path = os.path.join(REPLAYS, "%s-%s.json" % (prop, h))
            with open(path, "w") as f:
                json.dump(rec, f, indent=1, default=repr)
            worse(1, "violation %s / %s (%d path(s)) detail=%s" % (g[0], g[1], len(lst),
                                                                   json.dumps(v["detail"], default=repr)[:600]))
            print("VIOLATION property=%s replay=%s" % (prop, path))
            break

    wall = time.time() - t0
    if write_evidence:
        _write_evidence(prop, tier, seed, pmod, results, extras, validated, known_hits, n_viol,
                        wall, status, messages)
    tot_paths = sum(r["paths"] for r in results)
    print("%s tier=%s jobs=%d paths=%d queries=%d solver=%.1fs validated=%d extras=%d wall=%.1fs -> exit %d" % (
        prop, tier, len(results), tot_paths, sum(r["queries"] for r in results),
        sum(r["solver_s"] for r in results), validated, len(extras), wall, status))
    if os.environ.get("VERIF_VERBOSE"):
        for r in sorted(results, key=lambda r: -r["wall_s"]):
            print("    job %-28s paths=%-6d queries=%-8d solver=%.1fs wall=%.1fs" % (
                r["name"], r["paths"], r["queries"], r["solver_s"], r["wall_s"]))
    for m in messages[:40]:
        print("  - " + m[:3000])
    return status


def _read_profile(path):
    """CALL_PROFILE = [...] is read textually: it must be known before behave gets imported."""
    import ast
    tree = ast.parse(open(path).read())
    for node in tree.body:
        if isinstance(node, ast.Assign) and any(isinstance(t, ast.Name) and t.id == "CALL_PROFILE"
                                                for t in node.targets):
            return list(ast.literal_eval(node.value))
    return []


def _write_evidence(prop, tier, seed, pmod, results, extras, validated, known_hits, n_viol, wall,
                    status, messages):
    import symx
    os.makedirs(EVID, exist_ok=True)
    meta = getattr(pmod, "META", {})
    samples = []
    for r in results:
        for a, o in (r.get("traces") or [])[:2]:
            samples.append({"job": r["name"], "witness_assignment": a, "observable": o})
        if len(samples) >= 12:
            break
    if not samples:
        samples = [{"job": r["name"], "params": r["params"]} for r in results[:3]] or [{"none": True}]
    reached = {}
    for r in results:
        for k, v in r["reached"].items():
            reached[k] = reached.get(k, 0) + v
    cov = {
        "states": max(1, sum(r["paths"] for r in results)),
        "transitions": max(1, sum(r["queries"] for r in results)),
        "traces_validated_against_impl": validated,
        "samples": samples,
        "exhaustive": all(r["exhausted"] for r in results) if results else False,
        "explanation": "states = completed symbolic paths (each a class of inputs decided by z3), "
                       "transitions = solver branch-feasibility queries; exhaustive means every feasible "
                       "path within the stated bounds was executed and the closure query held",
        "jobs": [dict({k: r[k] for k in ("name", "paths", "aborted", "queries", "solver_s", "wall_s", "nodes",
                                         "exhausted", "closure", "inconclusive", "n_traces", "reached", "notes")},
                      bound=json.dumps(r.get("params"), default=repr, sort_keys=True)[:700])
                 for r in results],
        "solver_time_s": round(sum(r["solver_s"] for r in results), 3),
        "checks_reached": reached,
        "side_obligations": [{k: v for k, v in ob.items() if k not in ("replay_params",)} for ob in extras],
        "functions_encoded": meta.get("functions", []),
        "bounds": "%s | %d jobs; the exact parameters (shapes, domains, options) of each are under coverage.jobs[].bound"
                  % (meta.get("bounds", {}).get(tier, meta.get("bounds")), len(results)),
        "outside_bound": meta.get("outside", []),
        "instrumented_modules": sources_fingerprint(symx.STATS),
        "known_findings_seen": {k: len(v) for k, v in known_hits.items()},
        "exit_status": status,
        "messages": messages[:20],
        "leverage": meta.get("leverage"),
    }
    ev = {
        "property_id": prop, "tier": tier, "seed": seed, "level": "model_checking",
        "coverage": cov,
        "assumptions": meta.get("assumptions", []),
        "wall_s": round(wall, 2),
        "violations": n_viol,
    }
    with open(os.path.join(EVID, "%s.json" % prop), "w") as f:
        json.dump(ev, f, indent=1, default=repr)
