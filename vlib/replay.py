"""Concrete replay on the *uninstrumented* package (no import hook in this process)."""
import contextlib
import io
import json
import os
import sys

HERE = os.path.dirname(os.path.dirname(os.path.abspath(__file__)))


def _batch():
    import symx
    from .runner import load_harness
    req = json.load(sys.stdin)
    assert not symx.installed()
    fn = load_harness(req["harness"])
    outs = []
    real_out = sys.stdout
    for a in req["assignments"]:
        buf = io.StringIO()
        with contextlib.redirect_stdout(buf):
            r = symx.run_concrete(fn, a, params=req["params"])
        outs.append(r)
    real_out.write("\n@@RESULT@@" + json.dumps(outs, default=repr) + "\n")
    return 0


def replay_file(path):
    """./check --replay <file>: run the recorded counterexample against the real code and report."""
    from .runner import concrete_batch
    with open(path) as f:
        rec = json.load(f)
    if not rec.get("harness"):
        print("replay record has no harness (side obligation): %s" % json.dumps(rec)[:2000])
        return 0
    out = concrete_batch(rec["harness"], rec["params"], [rec["assignment"]])[0]
    hit = [v for v in out["violations"] if v["label"] == rec["label"]]
    print(json.dumps({"label": rec["label"], "reproduced": bool(hit), "observable": out["obs"],
                      "violations": out["violations"]}, indent=1, default=repr)[:6000])
    if hit:
        print("VIOLATION property=%s replay=%s" % (rec["property"], path))
        return 1
    return 0


if __name__ == "__main__":
    if "--batch" in sys.argv:
        sys.exit(_batch())
