"""Stage-1 harness: symbolic outcomes / flags / selection / faults pushed through the real
ModelRunner.run_model; oracles grouped by property."""
from .world import World
from .runspec import runspec
from . import world as W


def _flag(sx, opts, name):
    v = opts.get(name, False)
    if v == "sym":
        return sx.bool(name)
    return bool(v)


def build_world(sx, extra_opts=None, config_args=("--no-summary",)):
    p = sx.params
    opts = dict(p.get("opts", {}))
    flags = {}
    for name in ("stop", "dry_run"):
        flags[name] = _flag(sx, opts, name)
        opts[name] = flags[name]
    flags["continue_after_failed_step"] = bool(opts.get("continue_after_failed_step"))
    if extra_opts:
        opts.update(extra_opts)
    w = World(sx, p["shapes"], opts, config_args=config_args)
    return w, flags


def wrong_events(w, flags=None):
    """Ground truth from the harness' own step/hook/cleanup functions: did something go wrong?"""
    wrong = False
    for ev in w.events:
        kind = ev[0]
        if kind == "conversion-error":
            if not (flags and flags.get("dry_run")):
                wrong = True
        elif kind in ("assert", "exception", "kbdint", "hook-raised", "cleanup-raised", "undefined-lookup", "abort-called"):
            wrong = True
        elif kind == "pending":
            sid = ev[1]
            e = [x for x in w.scenario_elems() if x.eid == sid]
            wip = bool(e) and "wip" in e[0].effective_tags()
            if not wip:
                wrong = True
    return wrong


def _status_reader(w, name, context, args):
    """user hook that looks at the status of the running feature/rule (allowed at any time; must not freeze it)."""
    if name in ("after_scenario", "after_step", "before_scenario"):
        f = getattr(context, "feature", None)
        if f is not None:
            f.status
        r = getattr(context, "rule", None) if "rule" in context else None
        if r is not None:
            r.status
        sc = getattr(context, "scenario", None) if "scenario" in context else None
        if sc is not None and name == "after_scenario":
            sc.status       # the usual "if scenario.status == 'failed': take_screenshot()" in an after hook


def _container_skipper(w, name, context, args):
    """user hook calling the documented Feature.skip()/Rule.skip() on the running container after the k-th scenario
    (k symbolic): the remaining parts are skipped, what already ran keeps its status."""
    if name != "after_scenario":
        return
    n = getattr(w, "_skip_calls", 0)
    w._skip_calls = n + 1
    if w.sx.int("skip_container_after") == n:
        r = getattr(context, "rule", None) if "rule" in context else None
        if r is not None and w.sx.bool("skip_the_rule"):
            w.events.append(("container-skip", "rule", n))
            r.skip()
        else:
            w.events.append(("container-skip", "feature", n))
            context.feature.skip()


def h_stage1(sx):
    p = sx.params
    checks = p.get("checks", ["verdict"])
    extra = None
    if p.get("opts", {}).get("read_status_in_hooks"):
        extra = {"hooks": True, "fault": bool(p["opts"].get("fault")), "hook_probe": _status_reader}
    if p.get("opts", {}).get("skip_container_in_hooks"):
        extra = {"hooks": True, "fault": False, "hook_probe": _container_skipper}
    w, flags = build_world(sx, extra)
    if "exitcode" in checks:
        rc = _run_through_main(w)
    else:
        w.run()
    verdict = w.verdict
    faulted = bool(w.fault_fired) or any(e[0] == "cleanup-raised" for e in w.events)

    def fl(m):
        return {k: (sx.eval(v, m) if m is not None else bool(v)) for k, v in flags.items()}

    def det(m=None):
        return {"verdict": verdict, "events": [list(map(str, e)) for e in w.events][:12],
                "steps": w.step_status_table(), "flags": fl(m)}

    sx.check(w.escaped is None, "run.no-exception-escapes-run_model", detail=lambda m: repr(w.escaped))
    if w.escaped is not None:
        return w.observable()
    sx.check(not any(e[0] == "unrendered-placeholder" for e in w.events), "C02.row-steps-carry-the-row-values",
             detail=lambda m: [list(map(str, e)) for e in w.events if e[0] == "unrendered-placeholder"])

    ex = None
    if not faulted and not w.opts.get("nested_steps"):
        ex = runspec(w, flags)      # (the reference run does not model execute_steps: ground-truth events only there)

    if "verdict" in checks or "exitcode" in checks:
        wrong = wrong_events(w, flags)
        sx.check(verdict is True if wrong else True, "C01.no-false-green(events)", detail=det)
        sx.check(verdict is False if not wrong else True, "C01.no-false-red(events)", detail=det)
        if ex is not None:
            sx.check(verdict == ex.wrong, "C01.verdict==RunSpec", detail=lambda m: dict(det(m), expected=ex.wrong))
    if "exitcode" in checks:
        sx.check(rc == (1 if verdict else 0), "C01.exit-code-maps-verdict", detail=lambda m: {"rc": rc, "verdict": verdict})

    if "steps" in checks and ex is not None:
        calls = [tuple(c) for c in w.calls]
        sx.check(calls == ex.calls, "C02.call-log==RunSpec",
                 detail=lambda m: {"real": calls, "expected": ex.calls, "flags": fl(m)})
        real = w.step_status_table()
        sx.check(real == ex.steps, "C02.step-statuses==RunSpec",
                 detail=lambda m: {"real": real, "expected": ex.steps, "flags": fl(m)})
        if flags["dry_run"]:
            sx.check(not w.calls, "C02.dry-run-calls-nothing")

    if "rollup" in checks:
        _check_rollup(sx, w, flags)

    if "autoretry" in checks:
        # final statuses depend only on the last attempt of each scenario
        exl = runspec(w, flags)      # world.out() now answers with each scenario's *last* attempt
        real = w.step_status_table()
        for e in w.scenario_elems():
            last = w.attempt.get(e.eid, 1)
            if any(str(f[3]).split("/")[0] == e.eid and f[4] == last for f in w.fault_fired):
                continue    # a hook raised in the last attempt itself: covered by C12
            if any(f[3] is None or f[3] in [a.eid for a in e.ancestors()] for f in w.fault_fired):
                continue    # run-level / container hook fault: body may legitimately not run
            sx.check(real[e.eid] == exl.steps[e.eid], "C03.autoretry.last-attempt-decides(steps)",
                     detail=lambda m, e=e: {"sid": e.eid, "real": real[e.eid], "expected": exl.steps[e.eid],
                                            "attempts": w.attempt.get(e.eid), "fired": [list(map(str, f)) for f in w.fault_fired]})
            sx.check(e.obj.status.name != "hook_error", "C03.autoretry.no-stale-hook-error",
                     detail=lambda m, e=e: {"sid": e.eid, "status": e.obj.status.name, "attempts": w.attempt.get(e.eid),
                                            "fired": [list(map(str, f)) for f in w.fault_fired]})

    obs = w.observable()
    if "rerun" in checks and (not faulted or w.opts.get("fault_first_run_only")):
        # the same model objects run again with a second, independent outcome vector (optionally on the SAME runner
        # object, and after a first run in which a hook raised)
        w.second_run(reset=bool(w.opts.get("rerun_reset")), same_runner=bool(w.opts.get("rerun_same_runner")))
        sx.check(w.escaped is None, "C02.rerun.no-exception", detail=lambda m: repr(w.escaped))
        ex2 = runspec(w, flags)
        calls2 = [tuple(c) for c in w.calls]
        real2 = w.step_status_table()
        sx.check(calls2 == ex2.calls, "C02.rerun.call-log==RunSpec(OUT2)",
                 detail=lambda m: {"real": calls2, "expected": ex2.calls, "first_run": obs["steps"], "flags": fl(m)})
        sx.check(real2 == ex2.steps, "C02.rerun.step-statuses==RunSpec(OUT2)",
                 detail=lambda m: {"real": real2, "expected": ex2.steps, "first_run": obs["steps"], "flags": fl(m)})
        sx.check(w.verdict == ex2.wrong, "C02.rerun.verdict==RunSpec(OUT2)")
        sx.check(not any(e[0] == "unrendered-placeholder" for e in w.events), "C02.row-steps-carry-the-row-values",
                 detail=lambda m: [list(map(str, e)) for e in w.events if e[0] == "unrendered-placeholder"])
        if "rollup" in checks:
            _check_rollup(sx, w, flags, prefix="C03.rerun.")
        obs["second"] = w.observable()

    for hook in p.get("extra_checks", []):
        from .runner import load_harness
        load_harness(hook)(sx, w, flags, ex)
    return obs


def _check_rollup(sx, w, flags, prefix="C03."):
    from behave.model_core import Status
    from .statusspec import Spec
    sp = Spec(Status)
    known_f2 = "C03-F2"

    def kids_of(e):
        if e.kind in ("scenario", "row"):
            return [s.status for s in w.step_objs(e)], "steps"
        return [c.obj.status for c in e.children], "children"

    for e in w.elems(("feature", "rule", "outline", "scenario", "row")):
        kids, kind = kids_of(e)
        if not kids:
            continue
        r = e.obj.status
        # ground truth: did a hook owned by this element raise in its latest run/attempt?
        hook = any(f[3] == e.eid and f[4] == w.attempt.get(e.eid, 1) for f in w.fault_fired)
        in_r = sp.in_R(kids, kind)
        sx.check(in_r, prefix + "R-covers-reachable(%s)" % kind,
                 detail=lambda m, e=e, kids=kids: {"elem": e.eid, "children": [k.name for k in kids]})
        ok = sp.holds(r, kids, hook)
        names = [k.name for k in kids]
        pl = [k.name for k in sp.PASSLIKE]
        # known finding F2: passed-like+ then skipped+ => skipped (step skipped its scenario)
        i = 0
        while i < len(names) and names[i] in pl:
            i += 1
        f2 = (e.kind in ("scenario", "row") and 0 < i < len(names) and all(n == "skipped" for n in names[i:])
              and r.name == "skipped")
        cleanup_err = any(ev[0] == "cleanup-raised" for ev in w.events)
        if cleanup_err and r.name == "error" and not ok:
            # a raising cleanup makes the owning element `error` (C13); not a roll-up of children
            continue
        sx.check(ok, prefix + "rollup(%s)" % e.kind, known=[(known_f2, f2)],
                 detail=lambda m, e=e, names=names, r=r, hook=hook: {"elem": e.eid, "children": names,
                                                                    "result": r.name, "hook": hook})


class _MainRunner(object):
    pass


def _run_through_main(w):
    """Execute behave.__main__.run_behave's tail (verdict -> return code) around the world's runner."""
    import contextlib
    import io
    from behave.__main__ import run_behave
    from behave.api.runner import ITestRunner

    class WorldRunner(ITestRunner):
        def __init__(self, config, **kw):
            self.config = config

        def run(self):
            return w.run()

        @property
        def undefined_steps(self):
            return []
    cfg = w.config
    cfg.format = ["null"]
    cfg.show_snippets = False
    buf = io.StringIO()
    with contextlib.redirect_stdout(buf):
        rc = run_behave(cfg, runner_class=WorldRunner)
    return rc
