"""Tag-expression trees, their renderings (v2 and v1 dialects) and their Boolean meaning as z3
formulas over tag-membership variables - written from the documentation, independent of behave.

tree := ["lit", name] | ["wild", pattern] | ["not", t] | ["and", t1, t2, ..] | ["or", t1, ..] | ["true"]
"""
import itertools

import z3


def glob_match(pattern, text):
    """Case-sensitive shell-style matching (*, ?, [seq], [!seq]) - own implementation (oracle side)."""
    def m(pi, ti):
        while pi < len(pattern):
            c = pattern[pi]
            if c == "*":
                for k in range(ti, len(text) + 1):
                    if m(pi + 1, k):
                        return True
                return False
            if ti >= len(text):
                return False
            if c == "?":
                pi += 1
                ti += 1
                continue
            if c == "[":
                j = pattern.find("]", pi + 2 if pattern[pi + 1:pi + 2] in ("!", "]") else pi + 1)
                if j == -1:
                    if text[ti] != "[":
                        return False
                    pi += 1
                    ti += 1
                    continue
                body = pattern[pi + 1:j]
                neg = body.startswith("!")
                if neg:
                    body = body[1:]
                chars = set()
                k = 0
                while k < len(body):
                    if k + 2 < len(body) and body[k + 1] == "-":
                        chars.update(chr(x) for x in range(ord(body[k]), ord(body[k + 2]) + 1))
                        k += 3
                    else:
                        chars.add(body[k])
                        k += 1
                if (text[ti] in chars) == neg:
                    return False
                pi = j + 1
                ti += 1
                continue
            if text[ti] != c:
                return False
            pi += 1
            ti += 1
        return ti == len(text)
    return m(0, 0)


def formula(tree, member, universe):
    """z3 Bool: meaning of `tree` for the tag set described by member: name -> z3 Bool."""
    k = tree[0]
    if k == "true":
        return z3.BoolVal(True)
    if k == "lit":
        return member.get(tree[1], z3.BoolVal(False))
    if k == "wild":
        ms = [member[t] for t in universe if glob_match(tree[1], t)]
        return z3.Or(ms) if ms else z3.BoolVal(False)
    if k == "not":
        return z3.Not(formula(tree[1], member, universe))
    subs = [formula(t, member, universe) for t in tree[1:]]
    return z3.And(subs) if k == "and" else z3.Or(subs)


def evaluate(tree, tags):
    k = tree[0]
    if k == "true":
        return True
    if k == "lit":
        return tree[1] in tags
    if k == "wild":
        return any(glob_match(tree[1], t) for t in tags)
    if k == "not":
        return not evaluate(tree[1], tags)
    if k == "and":
        return all(evaluate(t, tags) for t in tree[1:])
    return any(evaluate(t, tags) for t in tree[1:])


def operands(tree):
    if tree[0] in ("lit", "wild"):
        return [tree]
    out = []
    for t in tree[1:]:
        if isinstance(t, list):
            out.extend(operands(t))
    return out


PREC = {"or": 1, "and": 2, "not": 3, "lit": 4, "wild": 4, "true": 4}


def render_v2(tree, at=False, parens="min", space=" "):
    """parens: min | all ; at: prefix operands with @ ; space: separator around operators."""
    def r(t, parent_prec):
        k = t[0]
        if k in ("lit", "wild"):
            s = ("@" if at else "") + t[1]
            return "(%s)" % s if parens == "all" and parent_prec else s
        if k == "true":
            return ""
        if k == "not":
            inner = r(t[1], PREC["not"])
            s = "not" + space + inner
        else:
            op = space + k + space
            s = op.join(r(x, PREC[k]) for x in t[1:])
        if parens == "all" or PREC[k] < parent_prec or (k == "not" and parent_prec == PREC["not"]):
            return "(" + s + ")"
        return s
    return r(tree, 0)


def render_v2_list(tree, at=False):
    """list-of-terms form: a top-level conjunction given as a list of strings."""
    if tree[0] == "and":
        return [render_v2(t, at=at) for t in tree[1:]]
    return [render_v2(tree, at=at)]


def cnf_formula(groups, member):
    """v1 meaning: AND over groups of OR over (negated?, name)."""
    return z3.And([z3.Or([(z3.Not(member[n]) if neg else member[n]) for neg, n in g]) for g in groups])


def cnf_tree(groups):
    ands = []
    for g in groups:
        ors = [["not", ["lit", n]] if neg else ["lit", n] for neg, n in g]
        ands.append(ors[0] if len(ors) == 1 else ["or"] + ors)
    return ands[0] if len(ands) == 1 else ["and"] + ands


def gen_trees(ops, depth):
    """All trees up to `depth` over operand list `ops` (small, deterministic enumeration)."""
    level = [list(o) for o in ops]
    allt = list(level)
    for _ in range(depth):
        new = []
        for t in level:
            new.append(["not", t])
        pool = allt[:]
        for a, b in itertools.product(level, pool):
            if a is not b:
                new.append(["and", a, b])
                new.append(["or", a, b])
        level = new
        allt.extend(new)
    return allt
