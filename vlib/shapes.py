"""Abstract feature-tree shapes, a Gherkin renderer with known line numbers, and the index
(ids, lines, step sources, tags) that the reference semantics work on.

Shape (JSON-able):
  feature  = {"tags": [..], "bg": n, "items": [item..], "name": optional}
  item     = {"k": "s", "n": steps, "tags": [..]}
           | {"k": "o", "n": steps, "tags": [..], "ex": [{"rows": r, "tags": [..]}, ..]}
           | {"k": "r", "tags": [..], "bg": n, "items": [item..]}
"""


def F(items, tags=(), bg=0, name=None, bgp=False):
    return {"tags": list(tags), "bg": bg, "items": list(items), "name": name, "bgp": bgp}


def S(n, tags=(), name=None, rich=False):
    """rich: the first own step carries a data table, the last one a doc-string (unicode content)."""
    return {"k": "s", "n": n, "tags": list(tags), "name": name, "rich": rich}


def O(n, ex, tags=(), name=None, noptags=False):
    return {"k": "o", "n": n, "tags": list(tags), "name": name, "noptags": noptags,
            "ex": [{"rows": e[0], "tags": list(e[1]) if len(e) > 1 else []} if not isinstance(e, dict) else e
                   for e in ex]}


def R(items, tags=(), bg=0, bgp=False):
    return {"k": "r", "tags": list(tags), "bg": bg, "items": list(items), "bgp": bgp}


class Elem(object):
    """Index entry.  kind in feature|rule|outline|examples|scenario|row."""

    def __init__(self, eid, kind, line, tags, parent=None):
        self.eid = eid
        self.kind = kind
        self.line = line
        self.tags = list(tags)
        self.parent = parent
        self.children = []      # run items (rule/scenario/outline) or rows for outline
        self.steps = []         # for scenario/row: list of step sources in execution order
        self.own_steps = []
        self.bg_steps = []      # own background sources (containers)
        self.marker = None
        self.obj = None         # the behave model object (filled by World)
        if parent is not None and kind not in ("examples",):
            parent.children.append(self)

    def ancestors(self):
        p = self.parent
        while p is not None:
            yield p
            p = p.parent

    def effective_tags(self):
        tags = list(self.tags)
        for a in self.ancestors():
            tags.extend(a.tags)
        return tags

    def scenarios(self):
        """Leaf scenarios (plain + rows) in run order."""
        if self.kind in ("scenario", "row"):
            return [self]
        out = []
        for c in self.children:
            out.extend(c.scenarios())
        return out

    def __repr__(self):
        return "<%s %s>" % (self.kind, self.eid)


class Rendered(object):
    def __init__(self):
        self.lines = []
        self.features = []      # Elem
        self.by_id = {}
        self.filename = None

    @property
    def text(self):
        return "\n".join(self.lines) + "\n"


def render_feature(shape, fidx=0, markers=False, indent="  ", blank=0, step_kw=("Given", "When", "Then", "And", "But"),
                   filename=None, ptags=(), tag_lines=False):
    """Render one feature shape.  Returns a Rendered with .lines and the index."""
    out = Rendered()
    out.filename = filename or "f%d.feature" % fidx
    L = out.lines

    def emit(s):
        L.append(s)
        return len(L)

    def emit_tags(tags, ind):
        if tags and tag_lines and len(tags) > 1:
            # the same tags written on two tag lines with a comment between them
            emit(ind + "@" + tags[0])
            emit(ind + "# more tags")
            emit(ind + " ".join("@" + t for t in tags[1:]))
        elif tags:
            emit(ind + " ".join("@" + t for t in tags))

    def reg(e):
        out.by_id[e.eid] = e
        return e

    def pt(eid):
        # provenance-coded candidate tags: "<name>__<element id>" (presence is decided symbolically)
        return ["%s__%s" % (t, eid) for t in ptags]

    fid = "f%d" % fidx
    ftags = list(shape["tags"]) + pt(fid)
    emit_tags(ftags, "")
    fe = reg(Elem(fid, "feature", emit("Feature: %s" % (shape.get("name") or fid)), ftags))
    out.features.append(fe)

    def bg(container, n, ind, param=False):
        if not n:
            return
        emit(ind + "Background:")
        for k in range(n):
            src = "%s.bg.%d" % (container.eid, k)
            # param: the background step carries an outline placeholder (rendered per row for outline scenarios)
            emit(ind + indent + "%s do %s%s" % (step_kw[0] if k == 0 else step_kw[3], src, " <x>" if param else ""))
            container.bg_steps.append(src)

    def inherited(container):
        srcs = []
        if container.kind == "rule":
            srcs.extend(container.parent.bg_steps)
        srcs.extend(container.bg_steps)
        return srcs

    def items(container, its, ind):
        for i, it in enumerate(its):
            for _ in range(blank):
                emit("")
            iid = "%s.i%d" % (container.eid, i)
            if it["k"] == "s":
                tags = list(it["tags"]) + (["m_" + iid] if markers else []) + pt(iid)
                emit_tags(tags, ind)
                e = reg(Elem(iid, "scenario", emit(ind + "Scenario: %s" % (it.get("name") or iid)), tags, container))
                e.marker = "m_" + iid if markers else None
                for k in range(it["n"]):
                    src = "%s.%d" % (iid, k)
                    emit(ind + indent + "%s do %s" % (step_kw[min(k, 2)] if k < 3 else step_kw[3], src))
                    e.own_steps.append(src)
                    if it.get("rich") and k == 0:
                        emit(ind + indent * 2 + "| name | wert |")
                        emit(ind + indent * 2 + "| Zoë  | a\\|b |")
                        emit(ind + indent * 2 + "|      | 2    |")
                    if it.get("rich") and k == it["n"] - 1:
                        emit(ind + indent * 2 + '"""')
                        emit(ind + indent * 2 + "erste Zeile ü")
                        emit(ind + indent * 2 + "  eingerückt & <tag>")
                        emit(ind + indent * 2 + '"""')
                e.steps = inherited(container) + e.own_steps
            elif it["k"] == "o":
                tags = list(it["tags"]) + (["m_" + iid] if markers else []) + ([] if it.get("noptags") else pt(iid))
                emit_tags(tags, ind)
                o = reg(Elem(iid, "outline", emit(ind + "Scenario Outline: %s" % (it.get("name") or iid)), tags, container))
                o.marker = "m_" + iid if markers else None
                for k in range(it["n"]):
                    src = "%s.%d" % (iid, k)
                    emit(ind + indent + "%s do %s" % (step_kw[min(k, 2)] if k < 3 else step_kw[3], src))
                    o.own_steps.append(src)
                for j, ex in enumerate(it["ex"]):
                    xid = "%s.e%d" % (iid, j)
                    xtags = list(ex["tags"]) + (["m_" + xid] if markers else []) + pt(xid)
                    emit_tags(xtags, ind + indent)
                    x = reg(Elem(xid, "examples", emit(ind + indent + "Examples: %s" % xid), xtags, o))
                    x.marker = "m_" + xid if markers else None
                    emit(ind + indent * 2 + "| x |")
                    for r in range(ex["rows"]):
                        if blank:
                            # filler lines INSIDE the table (the parser skips comments and blank lines between rows)
                            emit(ind + indent * 2 + "# row %d follows" % r)
                            if r:
                                emit("")
                        rid = "%s.r%d" % (xid, r)
                        # column placeholder <x> and the builder's own placeholders for the row
                        rtags = [t.replace("<x>", str(r)).replace("<row.index>", str(r + 1)).replace("<examples.index>", str(j + 1))
                                 .replace("<row.id>", "%d.%d" % (j + 1, r + 1)) for t in tags] + xtags
                        row = reg(Elem(rid, "row", emit(ind + indent * 2 + "| %d |" % r), rtags, o))
                        row.examples = x
                        row.own_steps = list(o.own_steps)
                        row.steps = inherited(container) + row.own_steps
            else:
                rtags_ = list(it["tags"]) + pt(iid)
                emit_tags(rtags_, ind)
                r = reg(Elem(iid, "rule", emit(ind + "Rule: %s" % iid), rtags_, container))
                bg(r, it.get("bg", 0), ind + indent, it.get("bgp", False))
                items(r, it["items"], ind + indent)

    bg(fe, shape.get("bg", 0), indent, shape.get("bgp", False))
    items(fe, shape["items"], indent)
    return out


def all_elems(rendered_list, kinds=None):
    out = []
    for rd in rendered_list:
        for e in rd.by_id.values():
            if kinds is None or e.kind in kinds:
                out.append(e)
    return out
