"""RunSpec - reference semantics of a behave run over the abstract shape index, written from the
property statements (C01, C02, C09) and docs/, independent of behave's run() methods.

It is executed *after* the real run on the same path, reading the same symbolic values (which the
path condition has already decided wherever the real code looked at them).  Scope: runs without a
raising hook/cleanup (those are covered by ground-truth events and by C12's self-composition)."""
from .world import (OUT_ASSERT, OUT_EXC, OUT_PENDING, OUT_KBD, OUT_SKIP, OUT_ABORT, OUT_SKIPFAIL)


class Expect(object):
    def __init__(self):
        self.calls = []
        self.steps = {}         # sid -> [status name]
        self.executed = set()   # sids whose body was entered (selected, run reached them)
        self.selected = {}      # sid -> bool
        self.failed = {}        # sid -> bool (scenario failed or errored)
        self.wrong = False
        self.aborted = False
        self.halted = False
        self.reached = set()    # sids the run got to (selected or not)


def runspec(world, flags):
    """flags: stop, dry_run, continue_after_failed_step (python truth-testable), wip via tags."""
    ex = Expect()
    stop = flags.get("stop", False)
    dry = flags.get("dry_run", False)
    cont = flags.get("continue_after_failed_step", False)
    select = world.opts.get("select")

    def is_selected(e):
        te = world.opts.get("tag_expr")
        if te:
            # SelectSpec: the expression's formula over (own + inherited) symbolic tag presence
            import z3
            from symx import SymBool, zbool
            from . import tagspec
            universe = list(world.opts["tag_universe"])
            acc = {}
            for t in e.effective_tags():
                if "__" in t:
                    name, eid = t.split("__", 1)
                    acc.setdefault(name, []).append(zbool(world.has(eid, name)))
                else:
                    acc.setdefault(t, []).append(z3.BoolVal(True))
                    name = t
                if name not in universe:
                    universe.append(name)
            member = {t: (z3.Or(acc[t]) if t in acc else z3.BoolVal(False)) for t in universe}
            f = tagspec.formula(te["tree"], member, universe)
            if world.sx.symbolic:
                return bool(SymBool(f))
            return z3.is_true(z3.simplify(f))
        if e.eid in getattr(world, "pre_skipped", ()):
            return False        # excluded at run time by another element's hook before it started: like a de-selected one
        if not select:
            return True
        r = False
        for t in e.effective_tags():
            if t.startswith("m_") and world.sel(t):
                r = True
        return r

    def untouched(e):
        for sc in e.scenarios():
            ex.steps[sc.eid] = ["untested"] * len(sc.steps)

    def run_scenario(sc):
        ex.reached.add(sc.eid)
        selected = ex.selected[sc.eid] = bool(is_selected(sc))
        n = len(sc.steps)
        if not selected:
            ex.steps[sc.eid] = ["skipped"] * n
            return False
        if ex.aborted:
            # the run was aborted earlier: nothing of this scenario is executed
            ex.steps[sc.eid] = ["untested"] * n
            return False
        ex.executed.add(sc.eid)
        wip = "wip" in sc.effective_tags()
        st = []
        if dry:
            for src in sc.steps:
                if world.undef(src):
                    st.append("undefined")
                    ex.wrong = True
                else:
                    st.append("untested")
            ex.steps[sc.eid] = st
            return False
        if sc.eid in getattr(world, "hook_skipped", ()):
            # its before_scenario hook excluded it: no step runs, the after hooks still do
            ex.steps[sc.eid] = ["skipped"] * n
            ex.failed[sc.eid] = False
            return False
        running = True
        failed = False
        by_skip = False
        for src in sc.steps:
            if running:
                if world.undef(src):
                    st.append("undefined")
                    failed = True
                    running = bool(cont)
                    continue
                if world.opts.get("converr") and world.converr(src):
                    st.append("error")
                    failed = True
                    running = bool(cont)
                    continue
                ex.calls.append((sc.eid, src))
                o = world.out(sc.eid, src)
                if o == OUT_ASSERT or o == OUT_SKIPFAIL:
                    s = "failed"
                elif o == OUT_EXC:
                    s = "error"
                elif o == OUT_PENDING:
                    s = "pending_warn" if wip else "pending"
                elif o == OUT_KBD:
                    s = "error"
                    ex.aborted = True
                elif o == OUT_ABORT:
                    s = "passed"
                    ex.aborted = True
                elif o == OUT_SKIP:
                    s = "skipped"
                    by_skip = True
                    running = False
                else:
                    s = "passed"
                st.append(s)
                if s in ("failed", "error", "pending"):
                    failed = True
                    running = bool(cont)
            else:
                if failed and not by_skip:
                    st.append("undefined" if world.undef(src) else "skipped")
                else:
                    st.append("skipped")
        ex.steps[sc.eid] = st
        ex.failed[sc.eid] = failed
        if failed:
            ex.wrong = True
        return failed

    def run_container(c):
        failed = False
        todo = list(c.children)
        while todo:
            it = todo.pop(0)
            if it.kind == "rule":
                fr = run_container(it)
            elif it.kind == "outline":
                fr = False
                rows = list(it.children)
                while rows:
                    r = rows.pop(0)
                    if run_scenario(r):
                        fr = True
                        if stop or ex.aborted:
                            break
                for r in rows:
                    untouched(r)
            else:
                fr = run_scenario(it)
            if fr:
                failed = True
                if stop or ex.aborted:
                    break
        for it in todo:
            untouched(it)
        return failed

    go = True
    for rd in world.rendered:
        fe = rd.features[0]
        if not go:
            untouched(fe)
            continue
        if run_container(fe):
            if stop or ex.aborted:
                go = False
                ex.halted = True
    if ex.aborted:
        ex.wrong = True
    return ex


def hookspec(world, ex, flags):
    """Expected fault-free hook log [(name, arg, owner_eid)] in strictly nested order, derived from
    the shape index and the RunSpec result (which scenarios were executed, which step functions ran)."""
    if flags.get("dry_run"):
        return []
    log = [("before_all", None, None)]
    executed_steps = {}
    for sid, src in ex.calls:
        executed_steps.setdefault(sid, []).append(src)

    def container_runs(c):
        return any(s.eid in ex.executed for s in c.scenarios())

    def reached(c):
        return any(s.eid in ex.reached for s in c.scenarios())

    def scen(sc):
        if sc.eid not in ex.executed:
            return
        tags = sc.obj.tags if sc.obj is not None else sc.tags
        own = list(sc.tags)
        for t in own:
            log.append(("before_tag", t, sc.eid))
        log.append(("before_scenario", sc.eid, sc.eid))
        for src in executed_steps.get(sc.eid, []):
            log.append(("before_step", "%s/step:%s" % (sc.eid, src), sc.eid + "/" + src))
            log.append(("after_step", "%s/step:%s" % (sc.eid, src), sc.eid + "/" + src))
        log.append(("after_scenario", sc.eid, sc.eid))
        for t in own:
            log.append(("after_tag", t, sc.eid))

    def container(c):
        if not reached(c) or not container_runs(c):
            return
        kind = c.kind
        for t in c.tags:
            log.append(("before_tag", t, c.eid))
        log.append(("before_" + kind, c.eid, c.eid))
        for it in c.children:
            if it.kind == "rule":
                container(it)
            elif it.kind == "outline":
                for r in it.children:
                    scen(r)
            else:
                scen(it)
        log.append(("after_" + kind, c.eid, c.eid))
        for t in c.tags:
            log.append(("after_tag", t, c.eid))

    for rd in world.rendered:
        container(rd.features[0])
    log.append(("after_all", None, None))
    return log
