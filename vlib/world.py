"""Stage-1 world: a real ModelRunner over parsed features with outcome-coded step functions,
fault-coded hooks, gated step lookup and symbolic selection.  Works in symbolic and concrete mode
(all decisions are ordinary Python `if`s on values obtained from the session)."""
import contextlib
import io
import sys

from . import shapes

OUT_PASS, OUT_ASSERT, OUT_EXC, OUT_PENDING, OUT_KBD, OUT_SKIP, OUT_CLEANUP, OUT_PRINT, OUT_ABORT = 0, 1, 2, 3, 4, 5, 6, 7, 8
OUT_SKIPFAIL = 9        # the step marks its own scenario as skipped and then fails an assertion
OUT_NAMES = {1: "assert", 2: "exception", 3: "pending", 4: "kbdint", 5: "skip-scenario", 6: "cleanup", 7: "print"}

_CFG_CACHE = {}


def base_config(args=()):
    """A Configuration built by the real constructor (once per argument tuple), shallow-copied per path."""
    import copy
    from behave.configuration import Configuration
    key = tuple(args)
    if key not in _CFG_CACHE:
        cfg = Configuration(list(args), load_config=False)
        _CFG_CACHE[key] = cfg
    cfg = copy.copy(_CFG_CACHE[key])
    cfg.userdata = copy.copy(cfg.userdata)
    cfg.reporters = list(cfg.reporters)
    cfg.outputs = list(cfg.outputs)
    return cfg


class SelExpr(object):
    """Stub tag expression = *arbitrary selection predicate* over the scenario marker tags:
    check(tags) is the disjunction of SEL[m] for the marker tags m present in `tags`."""

    def __init__(self, world):
        self.w = world

    def check(self, tags):
        r = False
        for t in sorted(tags):
            if t.startswith("m_"):
                v = self.w.sel(t)
                r = v if r is False else (r | v)
        return r


class SymSelect(object):
    """Wraps the REAL tag expression: the element's effective tags (computed by behave's real
    inheritance code) are provenance-coded names "<tag>__<element>"; presence of each is a
    symbolic Boolean, so the real expression is evaluated on a SymTagSet."""

    def __init__(self, expr, world):
        self.expr = expr
        self.w = world

    def members(self, tags):
        import z3
        from symx import SymTagSet, zbool
        universe = list(self.w.opts["tag_universe"])
        acc = {t: [] for t in universe}
        for t in sorted(tags):
            if "__" in t:
                name, eid = t.split("__", 1)
                acc.setdefault(name, []).append(self.w.has(eid, name))
                if name not in universe:
                    universe.append(name)
            else:
                acc.setdefault(t, []).append(True)
                if t not in universe:
                    universe.append(t)
        return universe, acc

    def check(self, tags):
        import z3
        from symx import SymTagSet, SymBool, zbool
        universe, acc = self.members(tags)
        if self.w.sx.symbolic:
            member = {}
            for t in universe:
                vs = acc.get(t, [])
                if any(v is True for v in vs):
                    member[t] = True
                elif not vs:
                    member[t] = False
                else:
                    member[t] = vs[0] if len(vs) == 1 else SymBool(z3.Or([zbool(v) for v in vs]))
            return self.expr.check(SymTagSet(universe, member, lazy=True))
        present = [t for t in universe if any(bool(v) for v in acc.get(t, []))]
        return self.expr.check(present)

    def to_string(self, pretty=True):
        return self.expr.to_string(pretty)


class GatedMatcher(object):
    """Wraps the real matcher of the single step definition: a step text is 'undefined' iff
    UNDEF[src] - the set of available step definitions is environment."""

    def __init__(self, inner, world):
        self._inner = inner
        self._w = world

    def match(self, text):
        src = text.split()[1] if text.startswith("do ") else text
        if self._w.opts.get("undef", True) and text.startswith("do "):
            if self._w.undef(src):
                self._w.events.append(("undefined-lookup", src))
                return None
        elif not text.startswith("do "):
            self._w.events.append(("undefined-lookup", text))
            return None
        return self._inner.match(text)

    def __getattr__(self, name):
        return getattr(self._inner, name)


class World(object):
    def __init__(self, sx, feature_shapes, opts=None, config_args=("--no-summary",)):
        self.sx = sx
        self.opts = opts or {}
        self.calls = []         # (sid, src) for every step function call
        self.events = []        # ground truth: what the harness' own functions did
        self.hooklog = []       # (hook name, element id / tag)
        self.hook_calls = 0
        self.fault_fired = []   # [(k, hook name, arg)]
        self.cleanup_log = []
        self.timeline = []      # ("hook", name, arg) | ("call", sid, src) | ("cleanup", key)
        self._shared_cleanup = None
        self.shared_registrations = []
        self.phase = 1
        self.attempt = {}
        self._out = {}
        self._converr = {}
        self._has = {}
        self.hook_skipped = set()
        self.pre_skipped = set()
        self._undef = {}
        self._sel = {}
        self._clean = {}
        fnames = self.opts.get("filenames") or []        # run order need not be the lexicographic order of the paths
        self.rendered = [shapes.render_feature(s, i, markers=bool(self.opts.get("select")),
                                               ptags=self.opts.get("ptags", ()), tag_lines=bool(self.opts.get("tag_lines")),
                                               filename=fnames[i] if i < len(fnames) else None)
                         for i, s in enumerate(feature_shapes)]
        self._build(config_args)

    # -- lazily created symbols ----------------------------------------------------------------
    def out(self, sid, src):
        att = self.attempt.get(sid, 1)
        k = (self.phase, att, sid, src)
        if k not in self._out:
            dom = self.opts.get("out_dom", {})
            if self.phase == 2 and "out_dom2" in self.opts:
                dom = self.opts["out_dom2"]
            lohi = dom.get(sid, dom.get("*"))
            name = "out%s%s:%s:%s" % ("" if self.phase == 1 else str(self.phase),
                                      "" if att == 1 else "@%d" % att, sid, src)
            self._out[k] = self.sx.int(name, *lohi) if lohi else self.sx.int(name)
        return self._out[k]

    def undef(self, src):
        if not self.opts.get("undef", True):
            return False
        if src not in self._undef:
            self._undef[src] = self.sx.bool("undef:%s" % src)
        return self._undef[src]

    def converr(self, src):
        if src not in self._converr:
            self._converr[src] = self.sx.bool("converr:%s" % src)
        return self._converr[src]

    def sel(self, marker):
        if marker not in self._sel:
            self._sel[marker] = self.sx.bool("sel:%s" % marker)
        return self._sel[marker]

    def has(self, eid, name):
        k = (eid, name)
        if k not in self._has:
            self._has[k] = self.sx.bool("has:%s:%s" % (eid, name))
        return self._has[k]

    def clean(self, key):
        if key not in self._clean:
            self._clean[key] = self.sx.bool("cleanfail:%s" % (key,))
        return self._clean[key]

    # -- construction ----------------------------------------------------------------------------
    def _build(self, config_args):
        from behave.parser import parse_feature
        from behave.runner import ModelRunner, Context
        from behave.step_registry import StepRegistry
        from behave import model as bmodel
        self.bmodel = bmodel
        self.features = []
        self.obj2elem = {}
        self._outlines = []
        for rd in self.rendered:
            f = parse_feature(rd.text, filename=rd.filename)
            self.features.append(f)
            self._bind(rd, f)
        cfg = self.config = base_config(config_args)
        o = self.opts
        cfg.stdout_capture = o.get("stdout_capture", False)
        cfg.stderr_capture = o.get("stderr_capture", False)
        cfg.log_capture = o.get("log_capture", False)
        if "stop" in o:
            cfg.stop = o["stop"]
        if "dry_run" in o:
            cfg.dry_run = o["dry_run"]
        if "show_skipped" in o:
            cfg.show_skipped = o["show_skipped"]
        if o.get("select"):
            cfg.tag_expression = SelExpr(self)
        if o.get("tag_expr"):
            from behave.tag_expression.builder import make_tag_expression, TagExpressionProtocol
            te = o["tag_expr"]
            proto = {"v1": TagExpressionProtocol.V1, "v2": TagExpressionProtocol.V2,
                     "auto": TagExpressionProtocol.AUTO_DETECT}[te.get("protocol", "auto")]
            cfg.tag_expression = SymSelect(make_tag_expression(te["text"], proto), self)
        reg = self.registry = StepRegistry()
        stepfn = self._stepfn
        if o.get("async_steps"):
            from behave.api.async_step import async_run_until_complete
            w = self

            if o.get("async_steps") == "timeout":
                # the call form of the decorator, with a (generous) timeout
                @async_run_until_complete(timeout=30.0)
                async def async_stepfn(context, src):
                    return w._stepfn(context, src)
            else:
                @async_run_until_complete
                async def async_stepfn(context, src):
                    return w._stepfn(context, src)
            stepfn = async_stepfn
        pattern = u"do {src}"
        if o.get("converr"):
            from behave.matchers import register_type
            w = self

            def conv_src(text):
                if w.converr(text):
                    w.events.append(("conversion-error", text))
                    # a type converter may fail with any exception class (a lookup gives KeyError, ...)
                    kind = w.sx.choice("converr_kind", ["ValueError", "KeyError", "ZeroDivisionError", "AssertionError"])
                    kind = kind if isinstance(kind, str) else kind.concretize()
                    raise {"ValueError": ValueError, "KeyError": KeyError, "ZeroDivisionError": ZeroDivisionError,
                           "AssertionError": AssertionError}[kind]("cannot convert %s" % text)
                return text
            conv_src.pattern = r"\S+"
            register_type(Src=conv_src)
            pattern = u"do {src:Src}"
        if o.get("typed_values"):
            # the step parameter is converted to a value of some Python type (symbolic: one kind per run); the step function
            # gets that value and finds its way back to the source id
            from behave.matchers import register_type
            import datetime, decimal, fractions
            w = self
            back = {}

            class Money(object):
                def __init__(self, n):
                    self.n = n

            def conv_val(text):
                kind = w.sx.choice("arg_kind", list(o["typed_values"]))
                kind = kind if isinstance(kind, str) else kind.concretize()
                n = len(back) + 1
                v = {"str": lambda: text, "int": lambda: n, "float": lambda: n + 0.5,
                     "Decimal": lambda: decimal.Decimal(n) / 4, "Fraction": lambda: fractions.Fraction(n, 7), "complex": lambda: complex(n, 1),
                     "date": lambda: datetime.date(2024, 1, n), "object": lambda: Money(n), "list": lambda: [n, text]}[kind]()
                back[(kind, repr(v) if kind != "object" else id(v))] = (text, v)
                w._typed_kind = kind
                return v
            conv_val.pattern = r"\S+"
            register_type(Val=conv_val)
            pattern = u"do {src:Val}"
            inner = stepfn

            def typed_stepfn(context, src):
                for (kind, key), (text, v) in back.items():
                    if v is src or (kind != "object" and type(v) is type(src) and v == src):
                        return inner(context, text)
                raise AssertionError("step function received %r, which no converter call produced" % (src,))
            stepfn = typed_stepfn
        reg.add_step_definition("step", pattern, stepfn)
        if o.get("gated", True):
            reg.steps["step"][0] = GatedMatcher(reg.steps["step"][0], self)
        self.runner = ModelRunner(cfg, features=self.features, step_registry=reg)
        self.runner.context = Context(self.runner)
        if o.get("hooks"):
            self._hooks_made = self._make_hooks()
            self.runner.hooks = self._hooks_made
        if o.get("autoretry") or o.get("continue_after_failed_step"):
            self.bind_rows(build=True)
        if o.get("autoretry"):
            from behave.contrib.scenario_autoretry import patch_scenario_with_autoretry
            for e in self.scenario_elems():
                sc = e.obj

                def counted(*a, _orig=sc.run, _sid=e.eid, **k):
                    self.attempt[_sid] = self.attempt.get(_sid, 0) + 1
                    return _orig(*a, **k)
                sc.run = counted
                patch_scenario_with_autoretry(sc, max_attempts=o["autoretry"])
        if o.get("continue_after_failed_step") and o.get("continue_after_failed_step") != "in-hook":
            for e in self.scenario_elems():
                e.obj.continue_after_failed_step = True

    def _bind(self, rd, feature):
        fe = rd.features[0]
        fe.obj = feature
        self.obj2elem[id(feature)] = fe

        def bind_items(elem, obj):
            assert len(elem.children) == len(obj.run_items), (elem, elem.children, obj.run_items)
            for ce, co in zip(elem.children, obj.run_items):
                ce.obj = co
                self.obj2elem[id(co)] = ce
                if ce.kind == "rule":
                    bind_items(ce, co)
                elif ce.kind == "outline":
                    # rows are bound lazily: behave expands an outline on first use and a never
                    # reached outline must stay unexpanded (as in a real run)
                    self._outlines.append(ce)
        bind_items(fe, feature)

    def bind_rows(self, build=False):
        for ce in self._outlines:
            if ce.children and ce.children[0].obj is not None:
                continue
            rows = ce.obj.scenarios if build else ce.obj._scenarios
            if not rows:
                continue
            assert len(rows) == len(ce.children), (ce, rows)
            for re_, ro in zip(ce.children, rows):
                re_.obj = ro
                self.obj2elem[id(ro)] = re_

    def elem_of(self, obj):
        e = self.obj2elem.get(id(obj))
        if e is None and obj is not None:
            self.bind_rows()
            e = self.obj2elem.get(id(obj))
        return e

    def scenario_elems(self):
        out = []
        for rd in self.rendered:
            out.extend(rd.features[0].scenarios())
        return out

    def elems(self, kinds=None):
        return shapes.all_elems(self.rendered, kinds)

    # -- step function --------------------------------------------------------------------------
    def _stepfn(self, context, src):
        from behave.api.pending_step import StepNotImplementedError
        full = src
        src = src.split()[0]        # a parametrised (background) step carries the row value after its source id
        sc = getattr(context, "scenario", None)
        e = self.elem_of(sc)
        sid = e.eid if e is not None else "?"
        if "<" in full and e is not None and e.kind == "row":
            self.events.append(("unrendered-placeholder", sid, full))       # a row's step must carry the row's value
        self.calls.append((sid, src))
        self.timeline.append(("call", sid, src))
        if self.opts.get("prints"):
            import logging
            print("OUT<%s:%s>" % (sid, src))
            sys.stderr.write("ERR<%s:%s>\n" % (sid, src))
            if self.opts.get("log_markers_at_info"):
                logging.getLogger("harness").info("LOG<%s:%s>", sid, src)
            else:
                logging.getLogger("harness").warning("LOG<%s:%s>", sid, src)
            if self.opts.get("log_volume"):
                # chatty step: many more records after the marker (the per-scenario log buffer must keep all of them)
                nfill = self.sx.choice("log_volume", list(self.opts["log_volume"]))
                nfill = nfill if isinstance(nfill, int) else nfill.concretize()
                filler = logging.getLogger("harness.fill")
                for i in range(nfill):
                    filler.warning("fill %d", i)
        if src.endswith(".sub"):
            # nested sub-step (execute_steps): passes, or fails iff its own outcome is assert-fail
            o_ = self.out(sid, src)
            if o_ == OUT_ASSERT:
                self.events.append(("assert", sid, src))
                raise AssertionError("boom %s" % src)
            if o_ == OUT_EXC and self.opts.get("nested_exceptions"):
                self.events.append(("exception", sid, src))
                raise RuntimeError("exc %s" % src)
            return
        if src in self.opts.get("nested_steps", ()):
            context.execute_steps(u"Given do %s.sub\nThen do %s.sub2.sub" % (src, src))
            self.calls.append((sid, src + ".post"))
            if self.opts.get("prints"):
                import logging
                print("OUT<%s:%s.post>" % (sid, src))
                sys.stderr.write("ERR<%s:%s.post>\n" % (sid, src))
                logging.getLogger("harness").warning("LOG<%s:%s.post>", sid, src)
        o = self.out(sid, src)
        if o == OUT_ASSERT:
            self.events.append(("assert", sid, src))
            raise AssertionError("boom %s" % src)
        if o == OUT_EXC:
            self.events.append(("exception", sid, src))
            kinds = self.opts.get("exc_kinds")
            if kinds:
                # "another exception": any class that is not an assertion / behave's own pending-step signal
                kind = self.sx.choice("exc_kind", list(kinds))
                kind = kind if isinstance(kind, str) else kind.concretize()
                raise {"RuntimeError": RuntimeError, "NotImplementedError": NotImplementedError, "KeyError": KeyError,
                       "SystemError": SystemError, "StopIteration": StopIteration}[kind]("exc %s" % src)
            raise RuntimeError("exc %s" % src)
        if o == OUT_PENDING:
            self.events.append(("pending", sid, src))
            raise StepNotImplementedError("pending %s" % src)
        if o == OUT_KBD:
            self.events.append(("kbdint", sid, src))
            raise KeyboardInterrupt()
        if o == OUT_SKIP:
            self.events.append(("skip-scenario", sid, src))
            context.scenario.skip()
            return
        if o == OUT_SKIPFAIL:
            self.events.append(("assert", sid, src))
            context.scenario.skip()
            raise AssertionError("failed after skip %s" % src)
        if o == OUT_ABORT:
            self.events.append(("abort-called", sid, src))
            context.abort()
            return
        if self.opts.get("cleanups") and o == OUT_CLEANUP:
            key = "%s:%s" % (sid, src)
            layer = self.opts.get("cleanup_layer")

            def cleanup():
                self.cleanup_log.append(key)
                self.timeline.append(("cleanup", key))
                if self.clean(key):
                    self.events.append(("cleanup-raised", key))
                    raise RuntimeError("cleanup %s" % key)
            cleanup.__name__ = "cleanup_" + key.replace(".", "_").replace(":", "_")
            if self.opts.get("cleanup_shared"):
                # the SAME callable is registered by every step that asks for it (documented: duplicates are avoided)
                if self._shared_cleanup is None:
                    def shared():
                        self.cleanup_log.append("shared")
                        self.timeline.append(("cleanup", "shared"))
                    self._shared_cleanup = shared
                self.shared_registrations.append((sid, src))
                context.add_cleanup(self._shared_cleanup, layer=layer) if layer else context.add_cleanup(self._shared_cleanup)
                return
            if layer:
                context.add_cleanup(cleanup, layer=layer)
            else:
                context.add_cleanup(cleanup)
            return
        if self.opts.get("prints") and o == OUT_PRINT:
            return
        # anything else passes

    # -- hooks ------------------------------------------------------------------------------------
    def _label(self, obj):
        e = self.elem_of(obj)
        if e is not None:
            return e.eid
        name = getattr(obj, "name", None)
        if isinstance(obj, self.bmodel.Step):
            return "step:" + name.split()[1]
        return repr(obj)

    def _make_hooks(self):
        w = self
        fault = self.sx.int("fault") if self.opts.get("fault") else None
        fault2 = self.sx.int("fault2") if self.opts.get("fault2") else None
        self.fault_sym = fault

        def mk(name):
            def hook(context, *args):
                w.hook_calls += 1
                k = w.hook_calls
                arg = None
                if args:
                    a = args[0]
                    arg = a if isinstance(a, str) else w._label(a)
                    if isinstance(a, w.bmodel.Step):
                        sc = getattr(context, "scenario", None)
                        se = w.elem_of(sc)
                        arg = "%s/%s" % (se.eid if se else "?", arg)
                w.hooklog.append((name, str(arg) if arg is not None else None))
                w.timeline.append(("hook", name, str(arg) if arg is not None else None))
                owner = arg
                if "tag" in name:
                    cands = [e for e in w.elems(("feature", "rule", "scenario", "row")) if arg in e.tags]
                    owner = cands[0].eid if cands else None
                    if len(cands) > 1:
                        se = w.elem_of(getattr(context, "scenario", None))
                        owner = se.eid if se is not None else owner
                elif "all" in name:
                    owner = None
                if w.opts.get("hook_probe"):
                    w.opts["hook_probe"](w, name, context, args)
                if name == "before_scenario" and w.opts.get("continue_after_failed_step") == "in-hook":
                    # the documented per-scenario recipe: the flag is switched on by the before_scenario hook
                    context.scenario.continue_after_failed_step = True
                if name == "before_feature" and w.opts.get("feature_hook_skips_later_scenario"):
                    # a before_feature hook that excludes one of the LATER scenarios of its feature (the n-th, n symbolic, n >= 1)
                    scs_ = [e_ for e_ in w.scenario_elems() if e_.eid.startswith(str(arg) + ".")]
                    n_ = w.sx.int("pre_skip_index", 1, max(1, len(scs_) - 1))
                    n_ = n_ if isinstance(n_, int) else w.sx.concretize_int(n_, 1, max(1, len(scs_) - 1))
                    if 0 < n_ < len(scs_) and scs_[n_].obj is not None:
                        w.pre_skipped.add(scs_[n_].eid)
                        w.events.append(("pre-skip", scs_[n_].eid))
                        scs_[n_].obj.skip()
                if name == "before_scenario" and w.opts.get("hook_skip_scenario"):
                    # a before_scenario hook that excludes its own scenario at run time (the n-th one, n symbolic)
                    n_ = w._bs_seen = getattr(w, "_bs_seen", -1) + 1
                    if w.sx.int("hook_skips_scenario") == n_:
                        w.hook_skipped.add(str(arg))
                        w.events.append(("hook-skip", str(arg)))
                        context.scenario.skip()
                for f in (fault, fault2):
                    if w.phase == 2 and w.opts.get("fault_first_run_only"):
                        break       # the second run of a two-run history is fault-free
                    if f is not None and f == k:
                        osid = str(owner).split("/")[0] if owner else None
                        w.fault_fired.append((k, name, arg, owner, w.attempt.get(osid, 1)))
                        w.events.append(("hook-raised", name, arg))
                        if w.opts.get("fault_kbd") and "all" not in name and w.sx.bool("fault_is_kbd:%d" % len(w.fault_fired)):
                            # the user presses Ctrl-C while a hook runs: not an Exception, the run is aborted
                            w.events.append(("kbdint", name, arg))
                            raise KeyboardInterrupt()
                        if w.sx.bool("fault_is_assert:%d" % len(w.fault_fired)):
                            raise AssertionError("hook fault %s%s" % (name, w.opts.get("fault_message", "")))
                        raise RuntimeError("hook fault %s%s" % (name, w.opts.get("fault_message", "")))
            hook.__name__ = name
            if w.opts.get("capture_decorated_hooks") and name != "before_all":
                # the documented @capture decorator for environment functions (behave.log_capture.capture); whether the
                # decorated hook logs something before raising is symbolic
                from behave.log_capture import capture
                inner = hook

                def logging_hook(context, *args):
                    if w.sx.bool("hooks_log_something"):
                        import logging
                        logging.getLogger("harness.hook").warning("hook %s called", name)
                    return inner(context, *args)
                logging_hook.__name__ = name
                return capture(logging_hook)
            return hook
        names = ["before_all", "after_all", "before_feature", "after_feature", "before_rule", "after_rule",
                 "before_scenario", "after_scenario", "before_step", "after_step", "before_tag", "after_tag"]
        return {n: mk(n) for n in names}

    # -- run ---------------------------------------------------------------------------------------
    def run(self):
        buf = io.StringIO()
        ebuf = io.StringIO()
        self.sentinel_out, self.sentinel_err = buf, ebuf
        self.escaped = None
        with contextlib.redirect_stdout(buf), contextlib.redirect_stderr(ebuf):
            try:
                self.verdict = self.runner.run_model()
            except Exception as e:      # an exception escaping run_model is itself an observation
                self.escaped = e
                self.verdict = None
            except KeyboardInterrupt as e:      # (only ever raised by the harness' own hooks/steps)
                self.escaped = e
                self.verdict = None
        self.stdout = buf.getvalue()
        self.stderr = ebuf.getvalue()
        self.bind_rows(build=True)      # observation time: the loaded model includes every outline row
        return self.verdict

    def second_run(self, reset=False, same_runner=False):
        """Run the *same* model objects again (fresh runner/context, or with same_runner the SAME runner object
        and a fresh context), with a second outcome vector.
        reset=True applies behave's documented Feature.reset() first (reset_model)."""
        from behave.runner import ModelRunner, Context
        from behave.model import reset_model
        if reset:
            reset_model(self.features)
        self.phase = 2
        self.calls = []
        self.events = []
        self.hooklog = []
        self.fault_fired = []
        if not same_runner:
            self.runner = ModelRunner(self.config, features=self.features, step_registry=self.registry)
            if self.opts.get("hooks"):
                self.runner.hooks = self._hooks_made
        self.runner.context = Context(self.runner)
        return self.run()

    # -- observations -----------------------------------------------------------------------------
    def step_objs(self, elem):
        """Step objects of a scenario/row in execution order (background copies first)."""
        return list(elem.obj.all_steps)

    def status_table(self):
        t = {}
        for e in self.elems(("feature", "rule", "outline", "scenario", "row")):
            t[e.eid] = e.obj.status.name
        return t

    def step_status_table(self):
        t = {}
        for e in self.scenario_elems():
            t[e.eid] = [s.status.name for s in self.step_objs(e)]
        return t

    def observable(self):
        return {"verdict": self.verdict, "calls": [list(c) for c in self.calls],
                "status": self.status_table(), "steps": self.step_status_table(),
                "hooks": [list(h) for h in self.hooklog], "escaped": repr(self.escaped) if self.escaped else None,
                "cleanups": list(self.cleanup_log)}
