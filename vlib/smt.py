"""Side queries in SMT-LIB2 for 'all strings' sub-claims (cvc5 binary for str.replace_all; z3 for
char-range / regex reasoning).  Any `(error` line, `unknown` or timeout is inconclusive."""
import os
import subprocess
import tempfile
import time


def run_solver(script, solver="cvc5", timeout=120):
    """Returns (verdict, seconds, raw) with verdict in sat|unsat|unknown|error|timeout."""
    t0 = time.time()
    with tempfile.TemporaryDirectory() as d:
        path = os.path.join(d, "q.smt2")
        with open(path, "w") as f:
            f.write(script)
        if solver == "cvc5":
            cmd = ["cvc5", "--strings-exp", "--tlimit=%d" % (timeout * 1000), path]
        else:
            cmd = ["z3", "-T:%d" % timeout, path]
        try:
            p = subprocess.run(cmd, capture_output=True, text=True, timeout=timeout + 10)
        except subprocess.TimeoutExpired:
            return "timeout", time.time() - t0, ""
    out = (p.stdout + p.stderr).strip()
    dt = time.time() - t0
    if "(error" in out or "error" in out.lower() and "unsat" not in out and "sat" not in out.split():
        return "error", dt, out[:500]
    toks = out.split()
    for v in ("unsat", "sat", "unknown", "timeout"):
        if v in toks:
            return v, dt, out[:500]
    if "interrupted" in out or "timeout" in out.lower():
        return "timeout", dt, out[:500]
    return "error", dt, out[:500]


def obligation(name, script, expect="unsat", twin_script=None, solver="cvc5", timeout=120):
    """An obligation holds when the negated claim is unsat AND its satisfiable twin (vacuity guard) is sat."""
    v, dt, raw = run_solver(script, solver, timeout)
    ob = {"name": name, "solver": solver, "result": v, "seconds": round(dt, 2), "expected": expect}
    if v == expect:
        ob["verdict"] = "holds"
    elif v in ("sat", "unsat"):
        ob["verdict"] = "violated"
        ob["detail"] = raw
    else:
        ob["verdict"] = "inconclusive"
        ob["detail"] = raw
    if twin_script is not None and ob["verdict"] == "holds":
        tv, tdt, traw = run_solver(twin_script, solver, timeout)
        ob["twin"] = tv
        ob["seconds"] = round(dt + tdt, 2)
        if tv != "sat":
            ob["verdict"] = "inconclusive"
            ob["detail"] = "vacuity twin not satisfiable: %s %s" % (tv, traw)
    return ob
