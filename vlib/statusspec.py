"""StatusSpec: the roll-up *relation* of C03 written from the property statement and
docs/appendix.status.rst - independent of behave's compute_status bodies.

Given the (z3 Int) statuses `es` of the children of an element, `spec(rv, es, hook)` is a z3 Bool
saying that `rv` is an acceptable status of the element.  Where the statement does not pin the
result (both a failure and an error inside) either documented outcome is accepted."""
import z3

# member values are read from the live enum by the caller (no constants copied here)


_CACHE = {}      # concrete evaluations of the z3 formulas (pure function of the key)


class Spec(object):
    def __init__(self, S):
        self.S = S
        self.ERR = [S.error, S.hook_error, S.cleanup_error, S.undefined, S.pending]
        self.PASSLIKE = [S.passed, S.pending_warn, S.xfailed, S.xpassed]
        self.UNT = [S.untested, S.untested_pending, S.untested_undefined]
        self.FAILING = [S.failed] + self.ERR
        self.STEP_DOM = [S.untested, S.skipped, S.passed, S.failed, S.error, S.hook_error, S.undefined,
                         S.pending, S.pending_warn, S.untested_pending, S.untested_undefined]
        self.ELEM_DOM = [S.untested, S.skipped, S.passed, S.failed, S.error, S.hook_error]

    @staticmethod
    def isin(e, lst):
        return z3.Or([e == m.value for m in lst])

    def classes(self, es):
        S = self.S
        isin = self.isin
        E = z3.Or([isin(e, self.ERR) for e in es])
        F = z3.Or([e == S.failed.value for e in es])
        allS = z3.And([e == S.skipped.value for e in es])
        P = z3.And(z3.And([z3.Or(e == S.skipped.value, isin(e, self.PASSLIKE)) for e in es]),
                   z3.Or([isin(e, self.PASSLIKE) for e in es]))
        U = z3.And(z3.And([z3.Or(e == S.skipped.value, isin(e, self.UNT)) for e in es]),
                   z3.Or([isin(e, self.UNT) for e in es]))
        n = len(es)
        cut = z3.Or([z3.And(isin(es[i], self.PASSLIKE), isin(es[j], self.UNT))
                     for i in range(n) for j in range(i + 1, n)]) if n > 1 else z3.BoolVal(False)
        return E, F, allS, P, U, cut

    def spec(self, rv, es, hook=None):
        """rv: z3 Int (value of the computed status); es: child statuses; hook: z3 Bool or None."""
        S = self.S
        E, F, allS, P, U, cut = self.classes(es)
        # dry-run with an undefined step: nothing was executed (=> untested) *and* an error-class
        # status is inside (=> error); the statement does not pin the result, both are accepted.
        # Recognised by an untested-like child *preceding* an error-class child, which only a dry
        # run produces (in a real run nothing after an untested child is touched).
        n = len(es)
        D = z3.Or([z3.And(self.isin(es[i], self.UNT), self.isin(es[j], self.ERR))
                   for i in range(n) for j in range(i + 1, n)]) if n > 1 else z3.BoolVal(False)
        body = z3.If(D, z3.Or(rv == S.untested.value, rv == S.error.value), z3.And(
            z3.Implies(z3.And(E, z3.Not(F)), rv == S.error.value),
            z3.Implies(z3.And(F, z3.Not(E)), rv == S.failed.value),
            z3.Implies(z3.And(E, F), z3.Or(rv == S.error.value, rv == S.failed.value)),
            z3.Implies(z3.And(z3.Not(E), z3.Not(F)), z3.And(
                (rv == S.skipped.value) == allS,
                z3.Implies(rv == S.passed.value, P),
                z3.Implies(U, rv == S.untested.value),
                # "run was cut short": a passed child followed by an untested one may be `failed`
                z3.Implies(z3.Or(rv == S.error.value, rv == S.failed.value, rv == S.hook_error.value),
                           z3.And(rv == S.failed.value, cut)),
                self.isin(rv, [S.untested, S.skipped, S.passed, S.failed])))))
        if hook is None:
            return body
        return z3.If(hook, rv == S.hook_error.value, body)

    # -- reachability precondition R (DESIGN 4/C03): orderings a real run can produce ----------
    def R_steps(self, es):
        S = self.S
        isin = self.isin
        n = len(es)
        conds = []
        for i in range(n):
            for j in range(i + 1, n):
                # after a step that is not passed-like only skipped/undefined follow
                # (or untested-like after untested-like: nothing ran)
                conds.append(z3.Implies(z3.Not(isin(es[i], self.PASSLIKE)),
                                        z3.Or(es[j] == S.skipped.value, es[j] == S.undefined.value,
                                              z3.And(isin(es[i], self.UNT), isin(es[j], self.UNT)))))
                conds.append(z3.Implies(isin(es[i], self.UNT), isin(es[j], self.UNT)))
                # skipped is followed by skipped; or by undefined (undefined-step detection in the
                # remainder) when a failing step precedes both
                conds.append(z3.Implies(es[i] == S.skipped.value, z3.Or(
                    es[j] == S.skipped.value,
                    z3.And(es[j] == S.undefined.value,
                           z3.Or([isin(es[k], self.FAILING) for k in range(i)]) if i else z3.BoolVal(False)))))
        normal = z3.And(conds) if conds else z3.BoolVal(True)
        dry = z3.And([z3.Or(isin(e, self.UNT), e == S.undefined.value) for e in es])
        return z3.Or(normal, dry)

    def R_children(self, es):
        S = self.S
        isin = self.isin
        n = len(es)
        conds = []
        for i in range(n):
            for j in range(i + 1, n):
                conds.append(z3.Implies(es[i] == S.untested.value, es[j] == S.untested.value))
        # (an untested tail follows a failing child under --stop/abort, or any child when user code
        #  called context.abort(): no further constraint)
        normal = z3.And(conds) if conds else z3.BoolVal(True)
        dry = z3.And([z3.Or(e == S.untested.value, e == S.skipped.value, e == S.error.value) for e in es])
        return z3.Or(normal, dry)

    # -- concrete evaluation (used on concrete trees of Stage-1 paths and in replay) -------------
    def holds(self, result, children, hook=False, kind="children"):
        """Evaluate spec on concrete Status members with z3's simplifier (single source of truth)."""
        key = ("holds", result.value, tuple(c.value for c in children), bool(hook))
        if key not in _CACHE:
            es = [z3.IntVal(c.value) for c in children]
            f = self.spec(z3.IntVal(result.value), es, z3.BoolVal(bool(hook)))
            _CACHE[key] = z3.is_true(z3.simplify(f))
        return _CACHE[key]

    def in_R(self, children, kind):
        key = ("R", kind, tuple(c.value for c in children))
        if key not in _CACHE:
            es = [z3.IntVal(c.value) for c in children]
            f = self.R_steps(es) if kind == "steps" else self.R_children(es)
            _CACHE[key] = z3.is_true(z3.simplify(f))
        return _CACHE[key]
