"""C01 - run verdict: no false green, no false red."""
from vlib.runner import Job
from vlib.shapes import F, S, O, R

CALL_PROFILE = []

META = {
    "functions": [
        "behave.runner.ModelRunner.run_model/run_hook/abort/setup_capture", "behave.runner.Context._push/_pop/_do_cleanups/_set_root_attribute/add_cleanup",
        "behave.model.ScenarioContainer.run", "behave.model.ScenarioOutline.run", "behave.model.Scenario.run",
        "behave.model.Step.run", "behave.step_registry.StepRegistry.find_match", "behave.matchers.Match.run",
        "behave.__main__.run_behave (return-code tail)", "behave.parser.parse_feature (concrete text per shape)",
    ],
    "bounds": {
        "quick": "8 tree shapes (<=2 features, rule/background/outline variants), <=2 steps per scenario, <=4 scenarios; "
                 "step outcomes over all of Z for <=2 scenarios at a time (others {pass, assert-fail}); stop/dry-run symbolic; "
                 "per-scenario selection symbolic; single hook fault position over all of Z; single raising cleanup",
        "thorough": "16 shapes, <=3 steps per scenario, <=6 scenarios, every pair of scenarios fully symbolic in turn, "
                    "two hook faults",
    },
    "outside": ["process exit through a real `python -m behave` subprocess (only run_behave's return-code mapping is executed)",
                ">2 features; parallel runners; KeyboardInterrupt combined with continue_after_failed_step"],
    "assumptions": ["the set of step definitions is environment: a gated matcher makes a step text undefined iff UNDEF[src]",
                    "tag selection is an arbitrary predicate over per-scenario marker tags (stub tag expression; real expressions in C07-C09)",
                    "stdout of the run is redirected to a buffer"],
    "leverage": "data-symbolic: outcomes/fault position are unbounded integers, flags Booleans; oracle per path",
}

Z = None


def _shapes(tier):
    """name -> (feature shapes, extra opts).  Paths multiply across scenarios that all execute (about 1 + c*steps classes each,
    c = number of non-pass outcome classes), so only small shapes get outcomes over all of Z; larger ones are restricted
    to {pass, assert-fail, exception} or {pass, assert-fail} without undefined steps - the restriction is part of the bound."""
    Z = {}
    D3 = {"out_dom": {"*": [0, 2]}}
    D2 = {"out_dom": {"*": [0, 1]}, "undef": False}
    sh = {
        "2sc": ([F([S(2), S(2)])], Z),
        "bg+rule": ([F([S(1), R([S(1)], bg=1)], bg=1)], Z),
        "outline": ([F([O(1, [(2, []), (0, [])]), S(1)])], Z),      # second Examples table is header-only
        "stepless": ([F([S(1), S(0), S(1), R([S(0)]), R([S(1)])])], {"out_dom": {"*": [0, 1]}}),      # elements without children
        "2feat": ([F([S(2)]), F([S(1)])], Z),
        # (in @wip scenarios only behave's own pending-step signal is forgiven: other exception classes are symbolic there)
        "wip": ([F([S(2, tags=["wip"]), S(1)])], {"exc_kinds": ["RuntimeError", "NotImplementedError", "KeyError"]}),
        "wip-inherited": ([F([S(1), R([S(2)], tags=["wip"])])], {"exc_kinds": ["NotImplementedError", "StopIteration"]}),      # @wip on the rule only
    }
    if tier == "thorough":
        sh.update({
            "3sc": ([F([S(2), S(2), S(2)])], D3),
            "rule-outline": ([F([S(1), R([O(2, [(2, []), (1, [])]), S(1)], bg=1)], bg=1)], D2),
            "2feat-rule": ([F([S(1), R([S(2), S(1)])]), F([O(1, [(2, [])])], bg=1)], D2),
            "wip-feature": ([F([S(3), S(1)], tags=["wip"])], D3),
            "3steps": ([F([S(3), S(3)])], Z),
            "5sc": ([F([S(1), S(1), R([S(1), S(1)]), R([S(1)])])], D3),
            "2feat-bg": ([F([S(2), S(1)], bg=1), F([S(1), S(1)], bg=1)], D3),
        })
    return sh


def flag_shards(tier):
    """quick: stop/dry-run symbolic in one job; thorough: the four flag combinations as separate jobs (parallelism)."""
    if tier == "quick":
        return [("", {"stop": "sym", "dry_run": "sym"})]
    return [(".s%dd%d" % (s_, d_), {"stop": bool(s_), "dry_run": bool(d_)}) for s_ in (0, 1) for d_ in (0, 1)]


def jobs(tier, seed):
    js = []
    base = ["verdict", "steps"]
    for name, (shapes, xo) in _shapes(tier).items():
        for fname, fopts in flag_shards(tier):
            js.append(Job("run.%s%s" % (name, fname), "vlib.stage1:h_stage1",
                          {"shapes": shapes, "opts": dict(fopts, **xo), "checks": base},
                          reach=["C01.no-false-green(events)", "C01.verdict==RunSpec"],
                          min_paths=1 if fopts.get("dry_run") is True else 5, cost=50, validate=150 if tier == "quick" else 500))
    # selection symbolic (arbitrary tag predicate), outcomes {pass, fail, exception}
    js.append(Job("select.mixed", "vlib.stage1:h_stage1",
                  {"shapes": [F([S(1), O(1, [(1, []), (1, [])]), R([S(1)])])],
                   "opts": {"select": True, "stop": "sym", "dry_run": "sym", "out_dom": {"*": [0, 2]}}, "checks": base},
                  reach=["C01.verdict==RunSpec"], min_paths=20, cost=60, validate=150))
    # exit code mapping through run_behave
    js.append(Job("exitcode", "vlib.stage1:h_stage1",
                  {"shapes": [F([S(1), S(1)])], "opts": {"stop": "sym", "out_dom": {"*": [0, 4]}},
                   "checks": ["exitcode"]},
                  reach=["C01.exit-code-maps-verdict"], min_paths=5, cost=20, validate=100))
    # any single raising hook (k-th hook call, k in Z), Exception or AssertionError
    js.append(Job("hookfault", "vlib.stage1:h_stage1",
                  {"shapes": [F([S(1, tags=["t1"]), R([S(1)], tags=["t2"])], tags=["t0"])],
                   "opts": {"hooks": True, "fault": True, "stop": "sym", "out_dom": {"*": [0, 1]}},
                   "checks": ["verdict"]},
                  reach=["C01.no-false-green(events)"], min_paths=20, cost=80, validate=150))
    # any single raising cleanup registered by a step
    js.append(Job("cleanupfault", "vlib.stage1:h_stage1",
                  {"shapes": [F([S(2), S(1)])],
                   "opts": {"cleanups": True, "out_dom": {"*": [5, 6]}}, "checks": ["verdict"]},
                  reach=["C01.no-false-green(events)"], min_paths=4, cost=20, validate=100))
    # soft-assert mode (Scenario.continue_after_failed_step): a failure followed by passing steps still fails the run
    js.append(Job("continue", "vlib.stage1:h_stage1",
                  {"shapes": [F([S(3), S(1)])], "opts": {"continue_after_failed_step": True, "out_dom": {"*": [0, 3]}, "stop": "sym"},
                   "checks": ["verdict"]},
                  reach=["C01.no-false-green(events)"], min_paths=20, cost=300, validate=80))
    # a step that marks its own scenario as skipped and then fails (outcome 9): the failure still counts
    js.append(Job("skip-then-fail", "vlib.stage1:h_stage1",
                  {"shapes": [F([S(3), S(1)])], "opts": {"out_dom": {"f0.i0": [8, 9], "*": [0, 1]}, "undef": False, "stop": "sym"}, "checks": ["verdict"]},
                  reach=["C01.no-false-green(events)"], min_paths=8, cost=100, validate=40))
    # coroutine steps run through behave.api.async_step (plain decorator and the call form with a timeout)
    for nm, mode in (("async", True), ("async-timeout", "timeout")):
        js.append(Job(nm, "vlib.stage1:h_stage1",
                      {"shapes": [F([S(2), S(1)])], "opts": {"async_steps": mode, "out_dom": {"*": [0, 3]}, "stop": "sym"}, "checks": ["verdict"]},
                      reach=["C01.no-false-green(events)"], min_paths=20, cost=200, validate=60))
    # ... registered for an outer layer (the error surfaces when the rule / feature / test run ends)
    for layer, shape in (("feature", F([S(1), R([S(1)])])), ("rule", F([S(1), R([S(1), S(1)])])), ("testrun", F([S(1), S(1)]))):
        js.append(Job("cleanupfault.%s" % layer, "vlib.stage1:h_stage1",
                      {"shapes": [shape], "opts": {"cleanups": True, "cleanup_layer": layer, "undef": False,
                                # (outside the rule there is no "rule" layer to register for)
                                "out_dom": {"*": [5, 6], "f0.i0": [0, 0]} if layer == "rule" else {"*": [5, 6]}},
                       "checks": ["verdict"]},
                      reach=["C01.no-false-green(events)"], min_paths=4, cost=20, validate=60))
    if tier == "thorough":
        js.append(Job("hookfault2", "vlib.stage1:h_stage1",
                      {"shapes": [F([S(1, tags=["t1"]), O(1, [(1, ["t3"])])], tags=["t0"])],
                       "opts": {"hooks": True, "fault": True, "fault2": True, "out_dom": {"*": [0, 1]}, "undef": False},
                       "checks": ["verdict"]},
                      reach=["C01.no-false-green(events)"], min_paths=50, cost=500, validate=2000))
        js.append(Job("select.big", "vlib.stage1:h_stage1",
                      {"shapes": [F([S(1), O(1, [(2, []), (1, [])]), R([S(1), S(1)])]), F([S(1)])],
                       "opts": {"select": True, "stop": "sym", "dry_run": "sym", "out_dom": {"*": [0, 1]}, "undef": False}, "checks": base},
                      reach=["C01.verdict==RunSpec"], min_paths=100, cost=800, validate=2000))
    # hooks wrapped with the documented @capture decorator: a raising hook still fails the run
    js.append(Job("captured-hooks", "vlib.stage1:h_stage1",
                  {"shapes": [F([S(1, tags=["t1"]), S(1)])],
                   "opts": {"hooks": True, "fault": True, "capture_decorated_hooks": True, "out_dom": {"*": [0, 1]}, "undef": False},
                   "checks": ["verdict"]},
                  reach=["C01.no-false-green(events)"], min_paths=20, cost=300, validate=100))
    # steps that run sub-steps through context.execute_steps(): a failing sub-step fails its caller and the run
    js.append(Job("nested-steps", "vlib.stage1:h_stage1",
                  {"shapes": [F([S(2), S(1)])],
                   "opts": {"nested_steps": ["f0.i0.0", "f0.i1.0"], "nested_exceptions": True, "out_dom": {"*": [0, 2]}, "undef": False, "stop": "sym"},
                   "checks": ["verdict"]},
                  reach=["C01.no-false-green(events)"], min_paths=20, cost=300, validate=100))
    # two-run history on ONE runner object: the first run may have a raising hook, the second one is fault-free
    js.append(Job("rerun.same-runner", "vlib.stage1:h_stage1",
                  {"shapes": [F([S(1, tags=["t1"]), S(1)], tags=["t0"])],
                   "opts": {"hooks": True, "fault": True, "fault_first_run_only": True, "rerun_reset": True, "rerun_same_runner": True,
                            "out_dom": {"*": [0, 1]}, "undef": False},
                   "checks": ["verdict", "rerun"]},
                  reach=["C02.rerun.verdict==RunSpec(OUT2)"], min_paths=20, cost=300, validate=100))
    return js
