"""C15 - formatter event protocol well formed; JSON/plain/progress reports mirror the model."""
import io
import json
import re

from vlib.runner import Job
from vlib.shapes import F, S, O, R
from vlib.stage1 import build_world

CALL_PROFILE = []

META = {
    "functions": ["behave.model.ScenarioContainer.run / Scenario.run / Step.run (event emission)", "behave.runner.ModelRunner.run_model (uri, close)",
                  "behave.formatter._registry.make_formatters", "behave.formatter.json.JSONFormatter.*", "behave.json_parser.JsonParser.parse_features",
                  "behave.formatter.plain.PlainFormatter.*", "behave.formatter.progress.ScenarioProgressFormatter/StepProgressFormatter/ScenarioStepProgressFormatter",
                  "behave.formatter.pretty.PrettyFormatter (no-crash)"],
    "bounds": {"quick": "4 shapes (feature+rule backgrounds, outline rows, two features, tags), outcomes over {pass, assert-fail, exception} + undefined "
                        "steps, show_skipped/dry-run/--stop symbolic, selection symbolic in one shape, a raising feature-level cleanup in one shape; "
                        "5 formatter line-ups (subsets/orders of plain, progress, progress2, progress3, json, pretty) chosen symbolically, two recording "
                        "formatters at both ends of the line-up; jobs with a scenario skipped by a hook, @wip pending steps and parameter-conversion errors",
               "thorough": "7 shapes, all outcomes, hook faults"},
    "outside": ["colour/ANSI output of pretty, terminal width", "json.dumps itself (stdlib; output is re-parsed)", "show_timings numbers"],
    "assumptions": [],
    "leverage": "path space by solver; event streams and reports compared concretely per path",
}

LINEUPS = [["json", "plain"], ["plain", "progress2", "json"], ["progress3", "pretty", "json", "progress"], ["json"], ["progress2", "plain", "progress3"]]


class Rec(object):
    def __init__(self):
        self.ev = []

    def uri(self, u): self.ev.append(("uri", u))
    def feature(self, f): self.ev.append(("feature", f.name))
    def rule(self, r): self.ev.append(("rule", r.name))
    def background(self, b): self.ev.append(("background", b.location.line))
    def scenario(self, s): self.ev.append(("scenario", s.name))
    def step(self, s): self.ev.append(("step", s.name))
    def match(self, m): self.ev.append(("match", getattr(m.func, "__name__", None) if m.func else None))
    def result(self, s): self.ev.append(("result", s.name, s.status.name))
    def eof(self): self.ev.append(("eof",))
    def rule_finished(self): self.ev.append(("rule_finished",))
    def close(self): self.ev.append(("close",))


def check_grammar(ev):
    """feature, background?, per shown scenario: scenario, step*, (match, result)* in step order; eof; one close at the very end."""
    problems = []
    i = 0
    n = len(ev)
    closes = [k for k, e in enumerate(ev) if e[0] == "close"]
    if closes != [n - 1]:
        problems.append("close events at %s (expected exactly one, last)" % closes)
    while i < n and ev[i][0] != "close":
        if ev[i][0] != "uri":
            problems.append("expected uri at %d got %s" % (i, ev[i]))
            break
        i += 1
        if i < n and ev[i][0] != "feature":
            # a feature that is not shown (nothing selected, show_skipped off) produces no further events
            continue
        i += 1
        in_feature = True
        while i < n and in_feature:
            k = ev[i][0]
            if k in ("background", "rule", "rule_finished"):
                i += 1
            elif k == "scenario":
                i += 1
                steps = []
                while i < n and ev[i][0] == "step":
                    steps.append(ev[i][1])
                    i += 1
                results = []
                while i < n and ev[i][0] in ("match", "result"):
                    if ev[i][0] == "match":
                        if i + 1 >= n or ev[i + 1][0] != "result":
                            problems.append("match without result at %d" % i)
                        i += 1
                    else:
                        if ev[i - 1][0] != "match":
                            problems.append("result without match at %d" % i)
                        results.append(ev[i][1])
                        i += 1
                # results are for steps in step order (a subsequence of the announced steps)
                pos = 0
                for r in results:
                    while pos < len(steps) and steps[pos] != r:
                        pos += 1
                    if pos == len(steps):
                        problems.append("result for %s not in announced step order %s" % (r, steps))
                        break
                    pos += 1
            elif k == "eof":
                i += 1
                in_feature = False
            else:
                problems.append("unexpected %s at %d" % (ev[i], i))
                i += 1
                in_feature = False
    return problems


def h_formatters(sx):
    from behave.formatter._registry import make_formatters
    from behave.formatter.base import StreamOpener
    from behave.json_parser import JsonParser
    p = sx.params
    extra = {}
    registered = []
    if p.get("feature_cleanup"):
        def probe(w, name, context, args):
            if name == "before_feature":
                def cleanup():
                    if w.clean("feature-cleanup"):
                        w.events.append(("cleanup-raised", "feature"))
                        raise RuntimeError("feature cleanup")
                context.add_cleanup(cleanup)
        extra = {"hooks": True, "fault": False, "hook_probe": probe}
    if p.get("hook_skip"):
        def probe(w, name, context, args):       # noqa: F811
            # a before_scenario hook that excludes the k-th scenario at run time (k symbolic)
            if name == "before_scenario":
                n = getattr(w, "_bs_calls", 0)
                w._bs_calls = n + 1
                if w.sx.int("hook_skips_scenario") == n:
                    w.events.append(("hook-skip", n))
                    context.scenario.skip()
        extra = {"hooks": True, "fault": False, "hook_probe": probe}
    w, flags = build_world(sx, extra)
    w.config.show_skipped = sx.bool("show_skipped")
    w.config.show_timings = False
    w.config.show_multiline = True
    k = sx.choice("lineup", list(range(len(LINEUPS))))
    k = k if isinstance(k, int) else k.concretize()
    names = LINEUPS[k]
    streams = {n: io.StringIO() for n in names}
    w.config.format = list(names)
    w.config.outputs = [StreamOpener(stream=streams[n]) for n in names]
    w.config.color = "off"
    built = make_formatters(w.config, w.config.outputs)
    rec1, rec2 = Rec(), Rec()
    w.runner.formatters = [rec1] + list(built) + [rec2]
    w.run()
    sx.check(w.escaped is None, "C15.no-exception", detail=lambda m: repr(w.escaped))
    if w.escaped is not None:
        return {"escaped": repr(w.escaped)}

    def det(m):
        return {"lineup": names, "status": w.status_table(), "steps": w.step_status_table(),
                "flags": dict({k_: (sx.eval(v, m) if m is not None else bool(v)) for k_, v in flags.items()},
                              show_skipped=sx.eval(w.config.show_skipped, m) if m is not None else bool(w.config.show_skipped))}
    probs = check_grammar(rec1.ev)
    sx.check(not probs, "C15.event-stream-well-formed", detail=lambda m: dict(det(m), problems=probs, events=rec1.ev[:60]))
    sx.check(rec1.ev == rec2.ev, "C15.all-formatters-see-the-same-stream", detail=det)
    # ---- processed steps per scenario according to the (well-formed) stream: [(scenario name, [(step name, status)])]
    processed = []
    cur = None
    for e in rec1.ev:
        if e[0] == "scenario":
            cur = (e[1], [])
            processed.append(cur)
        elif e[0] == "result" and cur is not None:
            cur[1].append((e[1], e[2]))
    # ---- final statuses of the model, by scenario name / step name
    model = {}
    for e in w.scenario_elems():
        if e.obj is None:
            continue
        model[e.obj.name] = {"status": e.obj.status.name, "steps": [(s.name, s.status.name) for s in w.step_objs(e)]}
    for sname, res in processed:
        ms = dict(model[sname]["steps"])
        for stepname, status in res:
            sx.check(ms.get(stepname) == status, "C15.result-event-carries-final-step-status",
                     detail=lambda m, sname=sname, stepname=stepname, status=status: dict(det(m), scenario=sname, step=stepname, event_status=status, model=ms.get(stepname)))
    # ---- JSON report
    if "json" in names:
        text = streams["json"].getvalue()
        try:
            data = json.loads(text)
        except ValueError as ex:
            sx.check(False, "C15.json-is-valid", detail=lambda m: dict(det(m), error=str(ex), text=text[:400]))
            data = None
        if data is not None:
            shown = [f for f in w.features if any(e == ("feature", f.name) for e in rec1.ev)]
            sx.check([d["name"] for d in data] == [f.name for f in shown], "C15.json-features==shown-features", detail=lambda m: dict(det(m), json=[d["name"] for d in data]))
            for d, f in zip(data, shown):
                sx.check(d.get("status") == f.status.name, "C15.json-feature-status==model",
                         detail=lambda m, d=d, f=f: dict(det(m), feature=f.name, json=d.get("status"), model=f.status.name))
                els = d.get("elements", [])
                for el in els:
                    if el["type"] == "background":
                        sx.check("status" not in el or el["status"] is None, "C15.json-status-attached-to-its-own-element",
                                 detail=lambda m, el=el: dict(det(m), element="background@%s" % el["location"], status=el.get("status")))
                        # its steps are the background's OWN steps (inherited ones belong to the feature's background element)
                        bgs = [b for b in [f.background] + [r.background for r in f.rules] if b is not None]
                        mine = [b for b in bgs if str(el.get("location", "")).endswith(":%d" % b.line)]
                        if mine:
                            sx.check([s_["name"] for s_ in el["steps"]] == [s_.name for s_ in mine[0].steps], "C15.json-background-steps==model",
                                     detail=lambda m, el=el, mine=mine: dict(det(m), element="background@%s" % el["location"],
                                                                            json=[s_["name"] for s_ in el["steps"]], model=[s_.name for s_ in mine[0].steps]))
                scs = [el for el in els if el["type"] == "scenario"]
                shown_sc = [s for s, _ in processed if any(s == e.obj.name and e.eid.startswith(self_id(w, f)) for e in w.scenario_elems() if e.obj is not None)]
                sx.check([el["name"] for el in scs] == shown_sc, "C15.json-scenarios==shown-scenarios",
                         detail=lambda m, scs=scs, shown_sc=shown_sc: dict(det(m), json=[el["name"] for el in scs], expected=shown_sc))
                for el in scs:
                    mo = model.get(el["name"])
                    if mo is None:
                        continue
                    sx.check(el.get("status") == mo["status"], "C15.json-scenario-status==model",
                             detail=lambda m, el=el, mo=mo: dict(det(m), scenario=el["name"], json=el.get("status"), model=mo["status"]))
                    sx.check([s["name"] for s in el["steps"]] == [n_ for n_, _ in mo["steps"]], "C15.json-steps==model-steps",
                             detail=lambda m, el=el, mo=mo: dict(det(m), scenario=el["name"], json=[s["name"] for s in el["steps"]], model=mo["steps"]))
                    # tables and doc-strings are those of the model
                    mobj = [e_ for e_ in w.scenario_elems() if e_.obj is not None and e_.obj.name == el["name"]]
                    if mobj:
                        for js, stp in zip(el["steps"], w.step_objs(mobj[0])):
                            if stp.table is not None:
                                sx.check(js.get("table") == {"headings": list(stp.table.headings), "rows": [list(r) for r in stp.table.rows]},
                                         "C15.json-step-table==model", detail=lambda m, js=js: dict(det(m), step=js["name"], json=js.get("table")))
                            else:
                                sx.check("table" not in js, "C15.json-step-table==model", detail=lambda m, js=js: dict(det(m), step=js["name"], json=js.get("table")))
                            if stp.text:
                                jt = js.get("text")
                                jt = "\n".join(jt) if isinstance(jt, list) else jt
                                sx.check(jt == str(stp.text), "C15.json-doc-string==model", detail=lambda m, js=js, jt=jt: dict(det(m), step=js["name"], json=jt))
                    res = dict(next((r for s_, r in processed if s_ == el["name"]), []))
                    for js, (stepname, mstatus) in zip(el["steps"], mo["steps"]):
                        if "result" in js:
                            sx.check(js["result"]["status"] == mstatus, "C15.json-step-status-attached-to-its-own-step",
                                     detail=lambda m, el=el, js=js, mstatus=mstatus: dict(det(m), scenario=el["name"], step=js["name"], json=js["result"]["status"], model=mstatus))
                        else:
                            sx.check(stepname not in res, "C15.json-processed-step-has-result",
                                     detail=lambda m, el=el, js=js: dict(det(m), scenario=el["name"], step=js["name"]))
            # reading the report back yields the same structure and statuses
            try:
                back = JsonParser().parse_features(data)
                flat = [(sc.name, [(st.name, st.status.name) for st in sc.steps]) for f in back for sc in f.scenarios]
                want = [(el["name"], [(s["name"], s.get("result", {}).get("status", "untested")) for s in el["steps"]])
                        for d in data for el in d.get("elements", []) if el["type"] == "scenario"]
                sx.check(flat == want, "C15.json-read-back-same-structure", detail=lambda m: dict(det(m), back=flat, report=want))
            except Exception as ex:     # noqa
                sx.check(False, "C15.json-read-back-same-structure", detail=lambda m: dict(det(m), error=repr(ex)))
    # ---- plain: each processed step exactly once with its final status
    if "plain" in names:
        text = streams["plain"].getvalue()
        got = re.findall(r"^\s+(?:Given|When|Then|And|But|\*) (do \S+) \.\.\. (\w+)", text, re.M)
        want = [(n_, st) for _, res in processed for n_, st in res]
        sx.check(got == want, "C15.plain-shows-each-processed-step-once", detail=lambda m: dict(det(m), plain=got, expected=want))
    chars = {"passed": ".", "failed": "F", "error": "E", "hook_error": "H", "skipped": "S", "untested": "_", "undefined": "U",
             "pending": "P", "pending_warn": "p", "untested_pending": "p", "untested_undefined": "u"}
    if "progress2" in names:
        text = streams["progress2"].getvalue()
        line = "".join(l.split("  ", 1)[1] if "  " in l else "" for l in text.splitlines() if l.startswith("f") and ".feature" in l)
        want = "".join(chars[st] for _, res in processed for _, st in res)
        sx.check(line == want, "C15.progress2-one-char-per-processed-step", detail=lambda m: dict(det(m), progress2=line, expected=want, text=text[:300]))
    if "progress" in names:
        text = streams["progress"].getvalue()
        line = "".join(l.split("  ", 1)[1] if "  " in l else "" for l in text.splitlines() if l.startswith("f") and ".feature" in l)
        line = re.sub(r" *# \d+\.\d+s$", "", line)
        want = "".join(chars[model[sname]["status"]] for sname, _ in processed if sname in model)
        sx.check(line == want, "C15.progress-one-char-per-shown-scenario", detail=lambda m: dict(det(m), progress=line, expected=want, text=text[:300]))
    if "progress2" in names:
        # the problem report at the end of each feature names every failed / errored step of THAT feature exactly once
        text = streams["progress2"].getvalue()
        blocks = re.findall(r"^(FAILURE|ERROR) in step '([^']*)':\n  Feature:  (.*)\n  Scenario: (.*)$", text, re.M)
        got_blocks = sorted((k_, n_, sc_) for k_, n_, f_, sc_ in blocks)
        want_blocks = sorted(("FAILURE" if st == "failed" else "ERROR", n_, sname) for sname, res in processed for n_, st in res
                             if st in ("failed", "error", "hook_error", "cleanup_error", "undefined", "pending"))
        sx.check(got_blocks == want_blocks, "C15.progress2-problem-report-names-each-problem-step-once",
                 detail=lambda m: dict(det(m), reported=got_blocks, expected=want_blocks))
        sx.check(all(sc_.startswith(f_) for _, _, f_, sc_ in blocks), "C15.progress2-problem-report-names-each-problem-step-once",
                 detail=lambda m: dict(det(m), blocks=blocks))
    if "progress3" in names:
        text = streams["progress3"].getvalue()
        lines = [l.strip() for l in text.splitlines()]
        for sname, res in processed:
            if not res:
                continue
            want = "%s  %s" % (sname, "".join(chars[st] for _, st in res))
            sx.check(want in lines, "C15.progress3-shows-each-processed-step-once",
                     detail=lambda m, sname=sname, want=want: dict(det(m), scenario=sname, expected_line=want, text=text[:600]))
    return {"lineup": names, "events": len(rec1.ev), "json": ("json" in names)}


def self_id(w, feature):
    for rd, f in zip(w.rendered, w.features):
        if f is feature:
            return rd.features[0].eid
    return "?"


REACH = ["C15.event-stream-well-formed", "C15.all-formatters-see-the-same-stream", "C15.json-scenario-status==model",
         "C15.json-step-status-attached-to-its-own-step", "C15.plain-shows-each-processed-step-once"]


def h_shared_stream(sx):
    """More formatters than outfiles: the formatters without an own outfile share behave's default stdout opener; all of
    them get their events and their single close, the run ends normally."""
    from behave.formatter._registry import make_formatters
    from behave.formatter.base import StreamOpener
    w, flags = build_world(sx)
    k = sx.choice("lineup", [0, 1, 2])
    names = [["json", "plain", "progress2"], ["plain", "progress3", "progress"], ["json", "plain"]][k if isinstance(k, int) else k.concretize()]
    first = io.StringIO()
    w.config.format = list(names)
    w.config.outputs = [StreamOpener(stream=first)]       # only the first formatter has its own stream
    w.config.color = "off"
    rec = Rec()
    w.runner.formatters = list(make_formatters(w.config, w.config.outputs)) + [rec]
    w.run()
    sx.check(w.escaped is None, "C15.no-exception", detail=lambda m: {"lineup": names, "escaped": repr(w.escaped)})
    if w.escaped is not None:
        return {"escaped": repr(w.escaped)}
    probs = check_grammar(rec.ev)
    sx.check(not probs, "C15.event-stream-well-formed", detail=lambda m: {"lineup": names, "problems": probs})
    if names[0] == "json":
        try:
            json.loads(first.getvalue())
            ok = True
        except ValueError:
            ok = False
        sx.check(ok, "C15.json-is-valid", detail=lambda m: {"lineup": names, "text": first.getvalue()[:300]})
    return {"lineup": names, "events": len(rec.ev)}


def h_same_names(sx):
    """Scenarios that share keyword and name (two 'Scenario: Login', unnamed scenarios): every one of them is in the JSON
    report, in run order, with its own status and steps."""
    from behave.formatter._registry import make_formatters
    from behave.formatter.base import StreamOpener
    w, flags = build_world(sx)
    w.config.show_skipped = True
    w.config.show_timings = False
    names = ["json", "plain"]
    streams = {n: io.StringIO() for n in names}
    w.config.format = list(names)
    w.config.outputs = [StreamOpener(stream=streams[n]) for n in names]
    w.config.color = "off"
    w.runner.formatters = list(make_formatters(w.config, w.config.outputs))
    w.run()
    sx.check(w.escaped is None, "C15.no-exception", detail=lambda m: repr(w.escaped))
    if w.escaped is not None:
        return {"escaped": repr(w.escaped)}
    want = [(e.obj.name, e.obj.status.name, [s.status.name for s in w.step_objs(e)]) for e in w.scenario_elems() if e.obj is not None]
    try:
        data = json.loads(streams["json"].getvalue())
        got = [(el["name"], el.get("status"), [s_.get("result", {}).get("status", "untested") for s_ in el["steps"]])
               for d in data for el in d.get("elements", []) if el["type"] == "scenario"]
    except ValueError as ex:
        got = [("<invalid json>", str(ex), [])]
    det = lambda m: {"json": got, "model": want, "status": w.status_table()}
    sx.check([g[:2] for g in got] == [x[:2] for x in want], "C15.json-scenarios==shown-scenarios", detail=det)
    plain = re.findall(r"^\s*Scenario: (.*)$", streams["plain"].getvalue(), re.M)
    sx.check([p_.strip() for p_ in plain] == [x[0] for x in want], "C15.plain-shows-each-scenario", detail=lambda m: dict(det(m), plain=plain))
    return {"json": [list(g[:2]) for g in got]}


def jobs(tier, seed):
    js = []
    D = {"*": [0, 2]}
    shapes = {
        "bg-rule": ([F([S(2, rich=True), R([S(1, rich=True)], bg=1)], bg=1)], {"out_dom": D, "dry_run": "sym"}),
        "outline": ([F([O(1, [(2, ["e"])], tags=["o"]), S(1)], tags=["f"])], {"out_dom": D, "stop": "sym"}),
        "2feat-select": ([F([S(1), S(1)]), F([S(1)])], {"out_dom": {"*": [0, 1]}, "select": True}),
        "feature-cleanup": ([F([S(1)]), F([S(1)])], {"out_dom": {"*": [0, 1]}}),
        "wip": ([F([S(2, tags=["wip"]), S(1)], bg=1)], {"out_dom": {"*": [0, 3]}, "undef": False}),
        "converr": ([F([S(2), S(1)])], {"out_dom": {"*": [0, 1]}, "converr": True, "undef": False}),
        # step parameters converted to values of other Python types (numbers that JSON has no literal for, dates, objects)
        "typed-args": ([F([S(2), S(1)])], {"out_dom": {"*": [0, 1]}, "undef": False,
                                           "typed_values": ["str", "int", "float", "Decimal", "Fraction", "complex", "date", "object", "list"]}),
        # a hook raises somewhere (k-th hook call, k symbolic): the event protocol stays well formed
        "hookfault": ([F([S(2, tags=["t1"]), S(1)])], {"out_dom": {"*": [0, 1]}, "undef": False, "hooks": True, "fault": True}),
        "hook-skip": ([F([S(1), S(2), R([S(1)], bg=1)])], {"out_dom": {"*": [0, 1]}, "undef": False}),
    }
    if tier == "thorough":
        shapes.update({"3sc": ([F([S(2), S(2), S(1)])], {"out_dom": {"*": [0, 5]}, "stop": "sym", "dry_run": "sym"}),
                       "rule-outline": ([F([S(1), R([O(1, [(2, [])]), S(1)], bg=1)])], {"out_dom": D})})
    js.append(Job("shared-default-stream", "props.c15:h_shared_stream",
                  {"shapes": [F([S(1), S(1)])], "opts": {"out_dom": {"*": [0, 1]}, "undef": False}},
                  reach=["C15.event-stream-well-formed"], min_paths=8, cost=100, validate=12))
    js.append(Job("same-names", "props.c15:h_same_names",
                  {"shapes": [F([S(1, name="Login"), S(1, name="Login"), S(1), R([S(1, name="Login"), S(1, name="Login")])])],
                   "opts": {"out_dom": {"*": [0, 1]}, "undef": False}},
                  reach=["C15.json-scenarios==shown-scenarios"], min_paths=20, cost=100, validate=40))
    for name, (sh, opts) in shapes.items():
        js.append(Job("fmt.%s" % name, "props.c15:h_formatters", {"shapes": sh, "opts": opts, "feature_cleanup": name == "feature-cleanup", "hook_skip": name == "hook-skip"},
                      reach=REACH if name != "2feat-select" else REACH[:3], min_paths=20, cost=100, validate=40))
    return js
