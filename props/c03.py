"""C03 - status roll-up of scenario, outline, rule, feature follows the documented table."""
import z3

import symx
from symx import SymEnum
from vlib.runner import Job
from vlib.statusspec import Spec

CALL_PROFILE = []

META = {
    "functions": [
        "behave.model_core.Status.{is_error,is_failure,is_passed,is_untested,has_failed,is_final,is_pending,is_undefined}",
        "behave.model_core.OuterStatus.from_inner_status", "behave.model_core.ScenarioStatus.from_step_status",
        "behave.model_core.TagAndStatusStatement.status/set_status/clear_status",
        "behave.model.Scenario.compute_status", "behave.model.ScenarioContainer.compute_status",
        "behave.model.ScenarioOutline.compute_status",
        "(stage 1) behave.runner.ModelRunner.run_model, behave.model.*.run - via vlib.world",
        "behave.contrib.scenario_autoretry.patch_scenario_with_autoretry",
    ],
    "bounds": {
        "quick": "kernels: N<=4 children per element, all 11 step statuses / 6 element statuses symbolic; "
                 "nested depth-3 tree with 2x2 leaves; stage-1 trees from the C01 quick shapes",
        "thorough": "kernels: N<=7 steps, N<=6 children; nested trees; stage-1 trees from the C01 thorough shapes",
    },
    "outside": ["empty containers (excluded by the property)", "child tuples outside the reachability "
                "precondition R (hand-built orderings no run produces) are counted, not asserted"],
    "assumptions": ["reachability precondition R on child orderings (validated against stage-1 runs)",
                    "Status.__eq__ with a str operand is modelled by SymEnum (validated over all members x names at start-up)"],
    "leverage": "data-symbolic: child statuses are z3 Ints over the enum domain, the assertion is a solver query",
}


def _S():
    from behave.model_core import Status
    Status._sx_str_eq = True
    return Status


def _rv(r):
    return r.e if isinstance(r, SymEnum) else z3.IntVal(r.value)


# ---------------------------------------------------------------------------------------------
# (a) classification coherence over the whole enum
# ---------------------------------------------------------------------------------------------
def h_classification(sx):
    S = _S()
    reportable = [m for m in S if m not in (S.unknown, S.executing)]
    s = sx.enum(S, "status", reportable)
    from symx import zbool
    passed = zbool(s.is_passed())
    failure = zbool(s.is_failure())
    error = zbool(s.is_error())
    untested = zbool(s.is_untested())
    skipped = zbool(s == S.skipped)
    ks = [passed, failure, error, skipped, untested]
    exactly_one = z3.PbEq([(k, 1) for k in ks], 1)
    sx.check(exactly_one, "a.exactly-one-class")
    sx.check(zbool(s.has_failed()) == z3.Or(error, failure), "a.has_failed==error|failure")
    # a final status is never untested-like except the dry-run marker; non-final ones are untested-like
    # (pending_warn/undefined/... are final).  Statement: classification coherent => final statuses
    # are exactly those that are not plain `untested`/`untested_pending`/reserved cleanup_error.
    fin = zbool(s.is_final())
    sx.check(z3.Implies(z3.Or(passed, failure, skipped), fin), "a.final-covers-outcomes")
    sx.check(z3.Implies(s.e == S.untested.value, z3.Not(fin)), "a.untested-not-final")
    # OuterStatus / ScenarioStatus agree with the documented inner->outer table
    from behave.model_core import OuterStatus, ScenarioStatus
    table = {S.untested: S.untested, S.untested_pending: S.untested, S.untested_undefined: S.untested,
             S.skipped: S.skipped, S.passed: S.passed, S.failed: S.failed, S.error: S.error,
             S.hook_error: S.error, S.pending: S.error, S.pending_warn: S.passed, S.undefined: S.error}
    doc = list(table)
    s2 = sx.enum(S, "inner", doc)
    r2 = _rv(ScenarioStatus.from_step_status(s2))
    sx.check(z3.And([z3.Implies(s2.e == k.value, r2 == v.value) for k, v in table.items()]),
             "a.scenario-status-table")
    s3 = sx.enum(S, "inner2", [S.untested, S.skipped, S.passed, S.failed, S.error, S.hook_error,
                               S.pending, S.pending_warn, S.undefined])
    r3 = _rv(OuterStatus.from_inner_status(s3))
    sx.check(z3.And([z3.Implies(s3.e == k.value, r3 == table[k].value) for k in
                     [S.untested, S.skipped, S.passed, S.failed, S.error, S.hook_error, S.pending,
                      S.pending_warn, S.undefined]]), "a.outer-status-table")
    return "ok"


def h_eq_model(sx):
    """Validates the one hand-written model in the engine (SymEnum == str) against Status.__eq__."""
    S = _S()
    s = sx.enum(S, "status")
    names = [m.name for m in S] + ["", "Passed", "nosuch"]
    nm = sx.choice("name", names)
    name = nm if not isinstance(nm, symx.SymChoice) else nm.concretize()
    sym = (s == name)
    member = s if not isinstance(s, SymEnum) else s.concretize()
    real = S.__eq__(member, name)
    sx.check(bool(sym) == bool(real), "a.eq-model")
    return [member.name, name, bool(real)]


# ---------------------------------------------------------------------------------------------
# (b) roll-up kernels
# ---------------------------------------------------------------------------------------------
def _mk_step(model, i, status):
    st = model.Step("k.feature", i + 3, u"Given", "given", u"s%d" % i)
    st.status = status
    return st


def _mk_scenario(model, i, status):
    sc = model.Scenario("k.feature", 10 * i + 2, u"Scenario", u"k%d" % i,
                        steps=[model.Step("k.feature", 10 * i + 3, u"Given", "given", u"s")])
    sc._cached_status = status
    return sc


def h_kernel(sx):
    """One element of `kind` with N symbolic children (+ symbolic hook flag)."""
    import behave.model as model
    S = _S()
    sp = Spec(S)
    kind = sx.params["kind"]
    n = sx.params["n"]
    use_R = sx.params.get("R", True)
    dom = sp.STEP_DOM if kind == "scenario" else sp.ELEM_DOM
    kids = [sx.enum(S, "c%d" % i, dom) for i in range(n)]
    es = [_rv(k) for k in kids]
    hook = sx.bool("hook") if kind != "outline" else False
    if use_R:
        sx.assume(sp.R_steps(es) if kind == "scenario" else sp.R_children(es))
    if kind == "scenario":
        el = model.Scenario("k.feature", 1, u"Scenario", u"x",
                            steps=[_mk_step(model, i, k) for i, k in enumerate(kids)])
    else:
        children = [_mk_scenario(model, i, k) for i, k in enumerate(kids)]
        if kind == "feature":
            el = model.Feature("k.feature", 1, u"Feature", u"x", scenarios=children)
        elif kind == "rule":
            el = model.Rule("k.feature", 1, u"Rule", u"x", scenarios=children)
        else:
            el = model.ScenarioOutline("k.feature", 1, u"Scenario Outline", u"x")
            el._scenarios = children
    if kind != "outline":
        el.hook_failed = hook
    try:
        r = el.compute_status()
    except AssertionError as e:
        sx.check(False, "b.%s.no-internal-assert" % kind, detail=str(e)[:100])
        return ["assert", str(e)[:60]]
    rv = _rv(r)
    hz = symx.zbool(hook) if kind != "outline" else None
    names = [m.name for m in S]

    def detail(m):
        if m is None:       # concrete mode
            return {"children": [k.name for k in kids], "result": r.name, "hook": bool(hook)}
        return {"children": [sx.eval(k, m) for k in kids], "result": sx.eval(r, m) if isinstance(r, SymEnum) else r.name,
                "hook": sx.eval(hook, m) if kind != "outline" else False}
    known = []
    if kind == "scenario":
        known.append(("C03-F2", z3.And(_f2_formula(sp, es, rv), z3.Not(hz))))
    sx.check(sp.spec(rv, es, hz), "b.%s.rollup" % kind, detail=detail, known=known)
    # the element's public `.status` property agrees with compute_status (cache discipline)
    el.clear_status()
    st = el.status
    sx.check(_rv(st) == rv, "b.%s.status-property" % kind)
    return r.name       # (concretises a symbolic result: one path per feasible member)


def h_nested(sx):
    """feature > rule > outline > rows with symbolic leaf (scenario) statuses: bottom-up relation."""
    import behave.model as model
    S = _S()
    sp = Spec(S)
    rows = [sx.enum(S, "row%d" % i, sp.ELEM_DOM) for i in range(sx.params["rows"])]
    plain = [sx.enum(S, "sc%d" % i, sp.ELEM_DOM) for i in range(sx.params["plain"])]
    top = [sx.enum(S, "top%d" % i, sp.ELEM_DOM) for i in range(sx.params["top"])]
    sx.assume(sp.R_children([_rv(x) for x in rows]))
    outline = model.ScenarioOutline("k.feature", 20, u"Scenario Outline", u"o")
    outline._scenarios = [_mk_scenario(model, i, k) for i, k in enumerate(rows)]
    rule = model.Rule("k.feature", 10, u"Rule", u"r",
                      scenarios=[_mk_scenario(model, 5 + i, k) for i, k in enumerate(plain)])
    rule.add_scenario(outline)
    feature = model.Feature("k.feature", 1, u"Feature", u"f",
                            scenarios=[_mk_scenario(model, 8 + i, k) for i, k in enumerate(top)])
    feature.add_rule(rule)
    so = outline.status
    es_rule = [_rv(x) for x in plain] + [_rv(so)]
    sx.assume(sp.R_children(es_rule))
    sr = rule.status
    es_feat = [_rv(x) for x in top] + [_rv(sr)]
    sx.assume(sp.R_children(es_feat))
    sf = feature.status
    sx.check(sp.spec(_rv(so), [_rv(x) for x in rows]), "b.nested.outline")
    sx.check(sp.spec(_rv(sr), es_rule, z3.BoolVal(False)), "b.nested.rule")
    sx.check(sp.spec(_rv(sf), es_feat, z3.BoolVal(False)), "b.nested.feature")
    # transitivity consequences stated directly on the leaves
    leaves = [_rv(x) for x in rows + plain + top]
    E, F, allS, P, U, cut = sp.classes(leaves)
    fv = _rv(sf)
    sx.check(z3.Implies(fv == S.passed.value, z3.Not(z3.Or(E, F))), "b.nested.passed-implies-no-failure-inside")
    sx.check(z3.Implies(fv == S.skipped.value, allS), "b.nested.skipped-implies-all-skipped")
    return "ok"


# ---------------------------------------------------------------------------------------------
# classifiers for known findings
# ---------------------------------------------------------------------------------------------
def _cls_outline_untested_rows(rec, params):
    d = rec.get("detail") or {}
    if not rec["label"].startswith("b.outline") and rec["label"] != "b.nested.outline":
        return False
    ch = d.get("children")
    if ch is None:
        return False
    return all(c in ("untested", "skipped") for c in ch) and "untested" in ch and d.get("result") == "passed"


CLASSIFIERS = {
    "outline_all_rows_untested_reports_passed": _cls_outline_untested_rows,
}


def _f2_formula(sp, es, rv):
    """Known finding C03-F2 as a region: passed-like+ then skipped+ => skipped."""
    n = len(es)
    alts = []
    for i in range(1, n):
        alts.append(z3.And([sp.isin(es[j], sp.PASSLIKE) for j in range(i)] +
                           [es[j] == sp.S.skipped.value for j in range(i, n)]))
    if not alts:
        return z3.BoolVal(False)
    return z3.And(z3.Or(alts), rv == sp.S.skipped.value)


def jobs(tier, seed):
    js = []
    js.append(Job("a.classification", "props.c03:h_classification", reach=[
        "a.exactly-one-class", "a.has_failed==error|failure", "a.scenario-status-table", "a.outer-status-table"],
        min_paths=1, validate=0))
    js.append(Job("a.eq-model", "props.c03:h_eq_model", min_paths=30, reach=["a.eq-model"], validate="all"))
    nmax = {"scenario": 4, "feature": 4, "rule": 3, "outline": 4} if tier == "quick" else \
           {"scenario": 7, "feature": 6, "rule": 6, "outline": 6}
    for kind, nm in nmax.items():
        for n in range(1, nm + 1):
            js.append(Job("b.%s.n%d" % (kind, n), "props.c03:h_kernel", {"kind": kind, "n": n},
                          reach=["b.%s.rollup" % kind, "b.%s.status-property" % kind],
                          min_paths=2, cost=3 ** n, validate=100 if tier == "quick" else 1000))
    js.append(Job("b.nested", "props.c03:h_nested",
                  {"rows": 2, "plain": 1, "top": 1} if tier == "quick" else {"rows": 3, "plain": 2, "top": 2},
                  reach=["b.nested.feature", "b.nested.rule", "b.nested.outline"], cost=200, validate=100))
    # (c) reachable trees: statuses after real runs (stop/abort remainders, never-started features,
    #     de-selected elements, hook errors) satisfy the relation bottom-up; R is validated on them
    from props.c01 import _shapes, flag_shards
    for name, (shapes, xo) in _shapes(tier).items():
        if name == "stepless":
            continue        # elements without children: the roll-up statement is vacuous for them (an unreached step-less
                            # scenario reads "passed"), and the reachability precondition R does not model them
        for fname, fopts in flag_shards(tier):
            js.append(Job("c.run.%s%s" % (name, fname), "vlib.stage1:h_stage1",
                          {"shapes": shapes, "opts": dict(fopts, **xo), "checks": ["rollup"]},
                          reach=["C03.rollup(feature)", "C03.rollup(scenario)", "C03.R-covers-reachable(steps)"],
                          min_paths=1 if fopts.get("dry_run") is True else 5, cost=5000, validate=100 if tier == "quick" else 300))
    from vlib.shapes import F, S, O, R
    js.append(Job("c.select", "vlib.stage1:h_stage1",
                  {"shapes": [F([S(1), O(1, [(1, []), (1, [])]), R([S(1)])])],
                   "opts": {"select": True, "stop": "sym", "out_dom": {"*": [0, 1]}}, "checks": ["rollup"]},
                  reach=["C03.rollup(outline)", "C03.rollup(rule)"], min_paths=20, cost=6000, validate=100))
    # a raising scenario-layer cleanup is an error of that scenario (and rolls up): the C13 run harness, ground truth from its cleanups
    js.append(Job("c.run.cleanup-error-status", "props.c13:h_cleanup_runs",
                  {"shapes": [F([S(2), S(1)])], "opts": {"out_dom": {"*": [5, 6]}, "undef": False}},
                  reach=["C13.run.raising-cleanup-marks-owner-error"], min_paths=20, cost=3000, validate=60))
    # a scenario without own steps below a background: its status follows the inherited steps
    js.append(Job("c.run.bg-stepless", "vlib.stage1:h_stage1",
                  {"shapes": [F([S(0), S(1), R([S(0)], bg=1)], bg=1)], "opts": {"out_dom": {"*": [0, 2]}, "dry_run": "sym"}, "checks": ["rollup", "steps"]},
                  reach=["C03.rollup(feature)", "C03.rollup(scenario)"], min_paths=20, cost=5000, validate=100))
    # outline rows below a background without placeholders: every row has its own background steps and statuses
    js.append(Job("c.run.bg-outline", "vlib.stage1:h_stage1",
                  {"shapes": [F([O(1, [(2, [])]), S(1)], bg=1)], "opts": {"out_dom": {"*": [0, 2]}}, "checks": ["rollup", "steps"]},
                  reach=["C03.rollup(feature)", "C03.rollup(scenario)"], min_paths=20, cost=5000, validate=100))
    # the run is aborted by user code (context.abort() in a passing step) and de-selected elements follow
    js.append(Job("c.abort-then-deselected", "vlib.stage1:h_stage1",
                  {"shapes": [F([S(1), S(1), R([S(1)])]), F([S(1)])],
                   "opts": {"select": True, "out_dom": {"*": [0, 8]}, "undef": False}, "checks": ["rollup"]},
                  reach=["C03.rollup(feature)", "C03.rollup(rule)"], min_paths=20, cost=6000, validate=100))
    js.append(Job("c.hookfault", "vlib.stage1:h_stage1",
                  {"shapes": [F([S(1, tags=["t1"]), R([S(1)], tags=["t2"])], tags=["t0"]), F([O(1, [(2, [])])])],
                   "opts": {"hooks": True, "fault": True, "stop": "sym", "out_dom": {"*": [0, 1]}},
                   "checks": ["rollup"]},
                  reach=["C03.rollup(feature)"], min_paths=20, cost=8000, validate=100))
    js.append(Job("c.midrun-status-reads", "vlib.stage1:h_stage1",
                  {"shapes": [F([S(1), S(1), R([S(1), S(1)])])], "opts": {"read_status_in_hooks": True, "stop": "sym", "out_dom": {"*": [0, 2]}, "undef": False},
                   "checks": ["rollup"]},
                  reach=["C03.rollup(feature)", "C03.rollup(rule)"], min_paths=20, cost=7000, validate=100))
    js.append(Job("c.container-skip-midrun", "vlib.stage1:h_stage1",
                  {"shapes": [F([S(1), R([S(1), S(1)]), R([S(1)])])] if tier == "quick" else [F([S(1), O(1, [(2, [])]), R([S(1), S(1)]), R([S(1)])])],
                   "opts": {"skip_container_in_hooks": True, "out_dom": {"*": [0, 1] if tier == "quick" else [0, 2]}, "undef": False}, "checks": ["rollup"]},
                  reach=["C03.rollup(feature)", "C03.rollup(rule)"], min_paths=20, cost=7000, validate=100))
    js.append(Job("c.midrun-status-reads+hookfault", "vlib.stage1:h_stage1",
                  {"shapes": [F([S(1), S(1)])], "opts": {"read_status_in_hooks": True, "fault": True, "out_dom": {"*": [0, 1]}, "undef": False},
                   "checks": ["rollup"]},
                  reach=["C03.rollup(feature)"], min_paths=20, cost=7000, validate=100))
    js.append(Job("d.autoretry", "vlib.stage1:h_stage1",
                  {"shapes": [F([S(2, tags=["t1"])], tags=["t0"])] if tier == "quick" else [F([S(2, tags=["t1"]), S(1)], tags=["t0"])],
                   "opts": {"hooks": True, "fault": True, "autoretry": 2, "out_dom": {"*": [0, 1] if tier == "quick" else [0, 2]}},
                   "checks": ["rollup", "autoretry"]},
                  reach=["C03.autoretry.last-attempt-decides(steps)", "C03.autoretry.no-stale-hook-error"],
                  min_paths=50, cost=9500, validate=100))
    js.append(Job("d.rerun", "vlib.stage1:h_stage1",
                  {"shapes": [F([S(1), O(1, [(2, [])])])], "opts": {"out_dom": {"*": [0, 2]}, "stop": "sym",
                                                               "rerun_reset": True},
                   "checks": ["rollup", "rerun"]},
                  reach=["C03.rerun.rollup(feature)", "C02.rerun.step-statuses==RunSpec(OUT2)"],
                  min_paths=50, cost=9000, validate=100))
    # reset + second run in which a later feature (with a Rule) is never started (--stop): everything in it is untested again
    js.append(Job("d.rerun.rule-not-restarted", "vlib.stage1:h_stage1",
                  {"shapes": [F([S(1)]), F([S(1), R([S(1)])])], "opts": {"out_dom": {"*": [0, 1]}, "undef": False, "stop": "sym", "rerun_reset": True},
                   "checks": ["rollup", "rerun"]},
                  reach=["C03.rerun.rollup(feature)", "C02.rerun.step-statuses==RunSpec(OUT2)"],
                  min_paths=20, cost=3000, validate=100))
    return js
