"""C18 - output capture isolates step output and always restores the real streams."""
import io
import logging
import re
import sys

import symx
from vlib.runner import Job
from vlib.shapes import F, S, O, R
from vlib.stage1 import build_world

CALL_PROFILE = []

META = {
    "functions": ["behave.capture.CaptureController.setup_capture/start_capture/stop_capture/teardown_capture/captured", "behave.capture.Captured.add/make_report/__add__",
                  "behave.log_capture.LoggingCapture.inveigle/abandon/getvalue", "behave.model.Step.run / Scenario.run (capture calls, error_message)",
                  "behave.runner.ModelRunner.setup_capture/start_capture/stop_capture/teardown_capture/run_model"],
    "bounds": {"quick": "3 shapes (<=3 scenarios x <=2 steps, outline rows, background), every step and step hook writes unique markers to stdout, "
                        "stderr and logging; step outcomes over {pass, assert-fail, exception, pending, KeyboardInterrupt, skip-scenario}; the three "
                        "capture switches symbolic (all 8 combinations decided by the solver); a user handler on the root logger and a non-default root "
                        "level set in before_all, looked at from later before_scenario hooks and after the run; one job with hook faults; Captured add/report kernel over symbolic texts",
               "thorough": "5 shapes, logging_clear_handlers on/off, nested execute_steps"},
    "outside": ["bytes on a child process' real file descriptors (sentinel stream objects replace the real ones in-process)", "logging filters other than one mixed include/exclude filter"],
    "assumptions": ["sys.stdout/sys.stderr are replaced by sentinel StringIO objects before the run; identity is observed at every result event"],
    "leverage": "path space by solver (outcomes, capture switches, fault position); stream identity and marker placement checked concretely per path",
}

MARK = re.compile(r"(OUT|ERR|LOG|HOOKOUT)<([^:>]+):([^>]+)>")


class Probe(object):
    """Minimal formatter: observes the process streams at every event behave sends to formatters."""

    def __init__(self, w):
        self.w = w
        self.bad = []

    def _obs(self, where):
        if sys.stdout is not self.w.sentinel_out or sys.stderr is not self.w.sentinel_err:
            self.bad.append(where)

    def uri(self, u): pass
    def feature(self, f): self._obs("feature")
    def rule(self, r): pass
    def background(self, b): pass
    def scenario(self, s): self._obs("scenario:%s" % s.name)
    def step(self, s): pass
    def match(self, m): pass
    def result(self, step): self._obs("result:%s" % step.name)
    def eof(self): self._obs("eof")
    def rule_finished(self): pass
    def close(self): pass


def h_capture(sx):
    p = sx.params
    root = logging.getLogger()
    saved = (list(root.handlers), root.level, logging.root.manager.disable)
    logging.disable(logging.NOTSET)
    user_handler = logging.StreamHandler(io.StringIO())
    user_handler2 = logging.StreamHandler(io.StringIO())       # (an application usually has more than one: console + file)
    states = {}
    order = []
    toggled = []

    def probe(w, name, context, args):
        if name == "before_all":
            root.setLevel(logging.DEBUG)
            root.addHandler(user_handler)
            root.addHandler(user_handler2)
            if p.get("capture_level_notset"):
                root.setLevel(logging.WARNING)      # the application's own root level; capture level NOTSET = capture everything
            if p.get("stale_level_cache"):
                # the application logger was already asked "is WARNING enabled?" while the root level was higher
                # (e.g. a module logging at import time): loggers cache that answer until some setLevel() call
                root.setLevel(logging.ERROR)
                logging.getLogger("harness").isEnabledFor(logging.WARNING)
            if p.get("root_level_notset"):
                root.setLevel(logging.NOTSET)       # "no level of its own" (0) is a level to restore like any other
            if p.get("root_level_as_capture"):
                root.setLevel(logging.INFO)         # the application's level happens to be the capture level
            states["user-level"] = root.level
        if name == "before_scenario":
            sid = w._label(args[0])
            if p.get("switch_off_before_second") and order and sid not in order and not toggled:
                # user hook turning capture OFF for the rest of the run (e.g. for @no_capture scenarios)
                toggled.append(sid)
                context.config.stdout_capture = context.config.stderr_capture = context.config.log_capture = False
            states[sid] = ([h for h in root.handlers], root.level)
            order.append(sid)
        if name in ("before_step", "after_step"):
            print("HOOKOUT<%s:%s>" % (name, w._label(args[0])))
            if name == "before_step" and p.get("step_hook_changes_root_level"):
                root.setLevel(logging.DEBUG)        # user code turning on verbose logging for one step: undone at scenario end

    try:
        w, flags = build_world(sx, {"hooks": True, "fault": bool(p.get("fault")), "prints": True, "hook_probe": probe})
        cfg = w.config
        if p.get("switch_off_before_second"):
            cfg.stdout_capture = cfg.stderr_capture = cfg.log_capture = True       # on, until the hook turns them off
        else:
            cfg.stdout_capture = sx.bool("stdout_capture")
            cfg.stderr_capture = sx.bool("stderr_capture")
            cfg.log_capture = sx.bool("log_capture")
        cfg.logging_clear_handlers = bool(p.get("clear_handlers"))
        if p.get("capture_level_notset"):
            cfg.logging_level = logging.NOTSET
        if p.get("log_filter"):
            # --logging-filter with included AND excluded categories = "everything except the excluded ones"
            # (the markers are logged on "harness", the filler records on "harness.fill")
            cfg.logging_filter = p["log_filter"]
        pr = Probe(w)
        w.runner.formatters = [pr]
        befores, afters = [], []
        orig_teardown = w.runner.teardown_capture
        orig_setup = w.runner.setup_capture

        def setup_and_observe():
            befores.append(([h for h in root.handlers], root.level))
            orig_setup()

        def teardown_and_observe():
            orig_teardown()
            afters.append(([h for h in root.handlers], root.level))
        w.runner.teardown_capture = teardown_and_observe
        w.runner.setup_capture = setup_and_observe
        w.run()
        end_state = ([h for h in root.handlers], root.level)
    finally:
        root.handlers[:] = saved[0]
        root.setLevel(saved[1])
        logging.disable(saved[2])
    sx.check(w.escaped is None, "C18.no-exception", detail=lambda m: repr(w.escaped))
    if w.escaped is not None:
        return {"escaped": repr(w.escaped)}
    so, se, lo = bool(cfg.stdout_capture), bool(cfg.stderr_capture), bool(cfg.log_capture)
    if toggled:
        # the switches were on until the hook turned them off before scenario toggled[0]
        so = se = lo = True
        off_from = order.index(toggled[0])
        off_sids = set(order[off_from:])
    else:
        off_sids = set()

    def det(m):
        return {"capture": {"stdout": so, "stderr": se, "log": lo}, "real_stdout": w.stdout[-600:], "real_stderr": w.stderr[-300:],
                "steps": w.step_status_table(), "calls": w.calls}
    # 1. streams are the original objects again after every step/scenario/feature event
    sx.check(not pr.bad, "C18.streams-restored-after-every-step", detail=lambda m: dict(det(m), not_restored_at=pr.bad))
    sx.check(sys.stdout is not w.sentinel_out, "C18.harness-sanity")
    # 2. nothing reaches the real streams while capture is on; everything passes through when off
    real_out = {(k, a, b) for k, a, b in MARK.findall(w.stdout)}
    real_err = {(k, a, b) for k, a, b in MARK.findall(w.stderr)}
    for sid, src in [tuple(c) for c in w.calls]:
        if sid in off_sids:
            continue        # capture switched off by a hook: output passes through (not examined here)
        if so:
            sx.check(("OUT", sid, src) not in real_out, "C18.captured-stdout-does-not-leak", detail=lambda m, sid=sid, src=src: dict(det(m), marker=[sid, src]))
        else:
            sx.check(("OUT", sid, src) in real_out, "C18.uncaptured-stdout-passes-through", detail=lambda m, sid=sid, src=src: dict(det(m), marker=[sid, src]))
        if se:
            sx.check(("ERR", sid, src) not in real_err, "C18.captured-stderr-does-not-leak", detail=lambda m, sid=sid, src=src: dict(det(m), marker=[sid, src]))
        else:
            sx.check(("ERR", sid, src) in real_err, "C18.uncaptured-stderr-passes-through", detail=lambda m, sid=sid, src=src: dict(det(m), marker=[sid, src]))
    if so and not off_sids:
        sx.check(not any(k == "HOOKOUT" for k, a, b in real_out), "C18.captured-hook-output-does-not-leak", detail=det)
    # 3. a failing step's report holds exactly its scenario's output up to that step
    for e in w.scenario_elems():
        steps = w.step_objs(e)
        executed = [src for (sid, src) in [tuple(c) for c in w.calls] if sid == e.eid]
        for i, st in enumerate(steps):
            if st.status.name in ("failed", "error", "hook_error"):
                src = st.name.split()[1]
                if src in executed:
                    last = max(i_ for i_, x in enumerate(executed) if x == src or x.startswith(src + "."))
                    upto = executed[:last + 1]      # incl. nested sub-steps / output after them within the same step
                elif st.status.name == "hook_error":
                    upto = list(executed)           # before_step hook raised: the body did not run, earlier steps did
                else:
                    continue
                marks = MARK.findall(st.error_message or "")
                for kind, on in (("OUT", so), ("ERR", se), ("LOG", lo)):
                    got = [(a, b) for k, a, b in marks if k == kind]
                    exp = [(e.eid, s) for s in upto] if (on and e.eid not in off_sids) else []
                    sx.check(got == exp, "C18.failure-report-has-scenario-output-up-to-step(%s)" % kind,
                             detail=lambda m, e=e, got=got, exp=exp, kind=kind: dict(det(m), sid=e.eid, kind=kind, got=got, expected=exp))
    # 4. root logger handlers / level at scenario end are as before the scenario (user handler kept, no stale capture handler)
    from behave.log_capture import LoggingCapture
    # the first setup_capture() is run_model's own; every later one belongs to a scenario and is paired with its teardown
    # seen from user hooks: whenever a later scenario starts, and when the run is over (also after Ctrl-C / context.abort()
    # in a step), the root logger is the application's own again
    seen = [("before_scenario " + sid_, states[sid_]) for sid_ in order[1:] if sid_ in states] + ([("after the run", end_state)] if order else [])      # (no scenario started: the property says nothing)
    for where_, (hs_, lvl_) in seen:
        sx.check(not any(isinstance(h, LoggingCapture) for h in hs_), "C18.no-stale-capture-handler-after-scenario",
                 detail=lambda m, where_=where_, hs_=hs_: dict(det(m), at=where_, handlers=[type(h).__name__ for h in hs_]))
        users_ = [h for h in hs_ if not isinstance(h, LoggingCapture)]
        sx.check(users_ == [user_handler, user_handler2], "C18.user-log-handlers-as-before-scenario",
                 detail=lambda m, where_=where_, users_=users_: dict(det(m), at=where_, handlers=["user1" if h is user_handler else "user2" if h is user_handler2 else type(h).__name__ for h in users_]))
        if lo or not p.get("step_hook_changes_root_level"):
            # (with log capture off behave does not touch the root logger: a level changed by user code then simply stays)
            sx.check(lvl_ == states.get("user-level", lvl_), "C18.root-log-level-as-before-scenario",
                     detail=lambda m, where_=where_, lvl_=lvl_: dict(det(m), at=where_, level=lvl_, level_set_by_application=states.get("user-level")))
    for sid, ((hs_before, lvl_before), (hs_after, lvl_after)) in enumerate(zip(befores[1:], afters)):
        ub = [h for h in hs_before if not isinstance(h, LoggingCapture)]
        ua = [h for h in hs_after if not isinstance(h, LoggingCapture)]
        sx.check(ua == ub, "C18.user-log-handlers-as-before-scenario", detail=lambda m, sid=sid: dict(det(m), sid=sid))
        if lo or not p.get("step_hook_changes_root_level"):
            sx.check(lvl_after == lvl_before, "C18.root-log-level-as-before-scenario",
                     detail=lambda m, sid=sid, a=lvl_after, b=lvl_before: dict(det(m), sid=sid, level_after=a, level_before=b))
        sx.check(not any(isinstance(h, LoggingCapture) and h not in hs_before for h in hs_after), "C18.no-stale-capture-handler-after-scenario",
                 detail=lambda m, sid=sid: dict(det(m), sid=sid, handlers=[type(h).__name__ for h in hs_after]))
    return {"capture": [so, se, lo], "steps": w.step_status_table(), "bad": pr.bad}


def h_captured_kernel(sx):
    """Captured.add/__add__/make_report with symbolic texts: no loss, order kept, sections labelled."""
    from behave.capture import Captured
    pool = ["", "line1\nline2", "tail\n"]
    v = [sx.choice("t%d" % i, pool) for i in range(6)]
    v = [x if isinstance(x, str) else x.concretize() for x in v]
    c1 = Captured(v[0], v[1], v[2])
    c2 = Captured(v[3], v[4], v[5])
    c3 = c1 + c2
    for name, a, b in (("stdout", v[0], v[3]), ("stderr", v[1], v[4]), ("log_output", v[2], v[5])):
        got = getattr(c3, name)
        sx.check(got.startswith(a) and got.endswith(b) and len(got) >= len(a) + len(b) and len(got) <= len(a) + len(b) + 1,
                 "C18.captured-add-loses-nothing", detail={"part": name, "a": a, "b": b, "got": got})
    rep = c3.make_report()
    for label, text in (("Captured stdout:", c3.stdout), ("Captured stderr:", c3.stderr), ("Captured logging:", c3.log_output)):
        sx.check((label in rep) == bool(text), "C18.report-sections", detail={"label": label, "text": text, "report": rep})
        if text.strip():
            sx.check(text.strip() in rep, "C18.report-contains-text", detail={"label": label, "text": text, "report": rep})
    sx.check((c1.stdout, c1.stderr, c1.log_output) == (v[0], v[1], v[2]), "C18.add-does-not-mutate-left-operand")
    return [c3.stdout, c3.stderr, c3.log_output]


REACH = ["C18.streams-restored-after-every-step", "C18.captured-stdout-does-not-leak", "C18.uncaptured-stdout-passes-through",
         "C18.failure-report-has-scenario-output-up-to-step(OUT)", "C18.root-log-level-as-before-scenario"]


def jobs(tier, seed):
    js = []
    D = {"*": [0, 5]}
    shapes = {
        "2sc": ([F([S(2), S(1)])], {"out_dom": D}),
        "bg-outline": ([F([O(1, [(2, [])]), S(1)], bg=1)], {"out_dom": {"*": [0, 2]}}),
        "hookfault": ([F([S(1), S(1)])], {"out_dom": {"*": [0, 1]}}),
    }
    if tier == "thorough":
        shapes.update({"3sc": ([F([S(2), S(2), S(1)])], {"out_dom": D, "stop": "sym"}),
                       "rule": ([F([S(1), R([S(1)], bg=1)], bg=1)], {"out_dom": D})})
    shapes["volume"] = ([F([S(2), S(1)])], {"out_dom": {"*": [0, 1]}, "undef": False, "log_volume": [0, 600, 1000]})
    shapes["filter"] = ([F([S(2), S(1)])], {"out_dom": {"*": [0, 1]}, "undef": False, "log_volume": [0, 3]})
    shapes["level-notset"] = ([F([S(2), S(1)])], {"out_dom": {"*": [0, 1]}, "undef": False, "log_markers_at_info": True})
    shapes["stale-level-cache"] = ([F([S(2), S(1)])], {"out_dom": {"*": [0, 1]}, "undef": False})
    shapes["switch-off-midrun"] = ([F([S(1), S(2)])], {"out_dom": {"*": [0, 1]}, "undef": False})
    shapes["root-notset"] = ([F([S(2), S(1)])], {"out_dom": {"*": [0, 1]}, "undef": False})
    shapes["level-changed-in-step"] = ([F([S(2), S(1)])], {"out_dom": {"*": [0, 1]}, "undef": False})
    shapes["nested"] = ([F([S(2), S(1)])], {"out_dom": {"*": [0, 1]}, "nested_steps": ["f0.i0.0", "f0.i1.0"], "undef": False})
    for name, (sh, opts) in shapes.items():
        for clear in ((False, True) if (tier != "quick" or name == "2sc") else (False,)):
            js.append(Job("capture.%s.c%d" % (name, clear), "props.c18:h_capture",
                          {"shapes": sh, "opts": opts, "fault": name == "hookfault", "clear_handlers": clear,
                           "log_filter": "other,-harness.fill" if name == "filter" else None, "stale_level_cache": name == "stale-level-cache", "capture_level_notset": name == "level-notset",
                           "switch_off_before_second": name == "switch-off-midrun",
                           "root_level_notset": name == "root-notset",
                           "root_level_as_capture": name == "level-changed-in-step", "step_hook_changes_root_level": name == "level-changed-in-step"},
                          reach=[REACH[0], REACH[3]] if name == "switch-off-midrun" else REACH if name != "hookfault" else REACH[:3],
                          min_paths=4 if name == "switch-off-midrun" else 20, cost=100, validate=60))
    js.append(Job("captured-kernel", "props.c18:h_captured_kernel", {}, reach=["C18.captured-add-loses-nothing"], min_paths=100, cost=50,
                  validate=50, closure=False))
    return js
