"""C13 - context scoping and cleanups: layered visibility, LIFO exactly-once cleanup."""
import z3

import symx
from vlib.runner import Job
from vlib.shapes import F, S, O, R
from vlib.stage1 import build_world
from vlib.runspec import runspec

CALL_PROFILE = []

META = {
    "functions": ["behave.runner.Context.__getattr__/__setattr__/__delattr__/__contains__/_push/_pop/_do_cleanups/add_cleanup/"
                  "_select_stack_frame_by_layer/_set_root_attribute/use_or_assign_param/use_or_create_param/use_with_user_mode/execute_steps",
                  "behave.fixture.use_fixture/_setup_fixture/use_composite_fixture_with",
                  "behave.model.ScenarioContainer.run / Scenario.run (_push/_pop sites, cleanup error -> Status.error)",
                  "behave.runner.ModelRunner.run_model (testrun-layer cleanups)"],
    "bounds": {
        "quick": "operation histories of length <=3 over 19 operations (exhaustive, sharded by first operation), attribute values "
                 "unconstrained integers, every cleanup may raise (Boolean per cleanup); real runs: 3 shapes with cleanups registered "
                 "in before_all/feature/rule/scenario hooks and in steps (current layer, layer=feature, layer=testrun)",
        "thorough": "histories of length <=4 (sharded by first operation); real runs: 5 shapes",
    },
    "outside": ["histories longer than the bound (no random sampling)", "ContextMaskWarning texts", "async context helpers"],
    "assumptions": ["reference model: stack of dicts with LIFO cleanup lists (40 lines, from the property statement)"],
    "leverage": "finite alphabet of operations explored exhaustively; attribute values are z3 integers (value-independence is a solver query)",
}

NAMES = ("a", "b")
OPS = [
    ("push", "feature"), ("push", "rule"), ("push", "scenario"), ("pop",),
    ("set", "a"), ("set", "b"), ("set-same", "a"), ("setroot", "a"), ("del", "a"), ("del", "b"),
    ("uoa", "a"), ("uoc", "b"),
    ("cleanup", "plain"), ("cleanup", "args"), ("cleanup", "layer:testrun"), ("cleanup", "layer:feature"),
    ("fixture", "gen"), ("fixture", "gen-nested"), ("fixture", "plain"), ("fixture", "failing-gen"), ("fixture", "composite-fail"),
    ("cleanup-shared", "plain"), ("cleanup-shared", "layer:feature"), ("cleanup-shared", "layer:testrun"),
]
N_CORE = len(OPS)
# further operations, used by dedicated jobs only (the general histories range over the core operations):
# an unnamed scope (with scoped_context_layer(context): ...) and cleanups addressed to the named layer below it
OPS += [("push", None), ("cleanup", "layer:scenario"), ("cleanup", "layer:rule")]


class Ref(object):
    """Reference: a stack of scopes, each a dict plus a LIFO cleanup list."""

    def __init__(self):
        self.frames = [{"layer": "testrun", "vars": {}, "cleanups": []}]    # innermost first

    def push(self, layer):
        self.frames.insert(0, {"layer": layer, "vars": {}, "cleanups": []})

    def lookup(self, name):
        for f in self.frames:
            if name in f["vars"]:
                return True, f["vars"][name]
        return False, None

    def frame_for_layer(self, layer):
        for f in self.frames:
            if f["layer"] == layer:
                return f
        return None


def h_ctx_ops(sx):
    import contextlib
    import io
    import warnings
    with contextlib.redirect_stdout(io.StringIO()), warnings.catch_warnings():
        warnings.simplefilter("ignore")
        return _h_ctx_ops(sx)


def _h_ctx_ops(sx):
    from behave.runner import Context, ModelRunner
    from behave.fixture import use_fixture, use_composite_fixture_with, fixture_call_params, fixture
    from vlib.world import base_config
    n = sx.params["n"]
    prefix = sx.params.get("prefix", [])
    runner = ModelRunner(base_config(("--no-summary",)), features=[])
    ctx = Context(runner)
    runner.context = ctx
    ref = Ref()
    ran = []            # cleanup ids in execution order (real)
    cid = [0]
    vcount = [0]

    def newval():
        vcount[0] += 1
        return sx.int("v%d" % vcount[0])

    def mk_cleanup(frame):
        cid[0] += 1
        me = cid[0]
        frame["cleanups"].append(me)

        def fn(*a, **k):
            ran.append(me)
            if sx.bool("raise%d" % me):
                raise RuntimeError("cleanup %d" % me)
        fn.__name__ = "cleanup%d" % me
        return fn, me

    def shared_fn():
        ran.append("shared")

    def same(x, y):
        if isinstance(x, symx.SymInt) or isinstance(y, symx.SymInt):
            return x == y
        return x is y or x == y

    def observe(tag):
        # after every operation all reads through the public API agree with the reference
        for name in NAMES:
            has, val = ref.lookup(name)
            sx.check(bool(name in ctx) == has, "C13.contains-agrees", detail=lambda m: {"after": tag, "name": name, "expected": has})
            try:
                got = getattr(ctx, name)
                sx.check(has, "C13.get-agrees(visibility)", detail=lambda m: {"after": tag, "name": name, "expected": "AttributeError"})
                if has:
                    sx.check(same(got, val), "C13.get-agrees(value)", detail=lambda m: {"after": tag, "name": name})
            except AttributeError:
                sx.check(not has, "C13.get-agrees(visibility)", detail=lambda m: {"after": tag, "name": name, "expected": "visible"})

    history = []
    for i in range(n):
        if i < len(prefix):
            op = OPS[prefix[i]]
        else:
            c = sx.choice("op%d" % i, sx.params.get("ops") or list(range(N_CORE)))
            op = OPS[c if isinstance(c, int) else c.concretize()]
        history.append(op)
        tag = list(history)
        kind = op[0]
        if kind == "push":
            ctx._push(layer=op[1])
            ref.push(op[1])
        elif kind == "pop":
            if len(ref.frames) == 1:
                continue
            before = len(ran)
            expect = list(reversed(ref.frames[0]["cleanups"]))
            raised = None
            try:
                ctx._pop()
            except Exception as e:     # noqa
                raised = e
            ref.frames.pop(0)
            got = ran[before:]
            sx.check(got == expect, "C13.cleanups-lifo-exactly-once-at-scope-end",
                     detail=lambda m: {"history": tag, "ran": got, "expected": expect})
            anyraise = any(bool(sx.bool("raise%d" % c)) for c in expect if c != "shared")
            sx.check((raised is not None) == anyraise, "C13.raising-cleanup-surfaces",
                     detail=lambda m: {"history": tag, "raised": repr(raised), "expected_raise": anyraise})
            sx.check(len(ctx._stack) == len(ref.frames), "C13.scope-removed-even-if-cleanup-raises",
                     detail=lambda m: {"history": tag})
        elif kind == "set":
            v = newval()
            try:
                with ctx.use_with_user_mode():
                    setattr(ctx, op[1], v)
            except Exception as e:      # noqa - setting an attribute never fails (it shadows / creates)
                et = type(e).__name__
                sx.check(False, "C13.set-creates-or-shadows", detail=lambda m: {"history": tag, "raised": et})
                return {"history": tag, "raised": et}
            ref.frames[0]["vars"][op[1]] = v
        elif kind == "set-same":
            # assign the very object that is visible already (e.g. context.profile = context.default_profile): the
            # current scope gets its own entry all the same
            has, val = ref.lookup(op[1])
            if has:
                try:
                    with ctx.use_with_user_mode():
                        setattr(ctx, op[1], val)
                except Exception as e:      # noqa
                    et = type(e).__name__
                    sx.check(False, "C13.set-creates-or-shadows", detail=lambda m: {"history": tag, "raised": et})
                    return {"history": tag, "raised": et}
                ref.frames[0]["vars"][op[1]] = val
        elif kind == "setroot":
            v = newval()
            ctx._set_root_attribute(op[1], v)
            ref.frames[-1]["vars"][op[1]] = v
        elif kind == "del":
            ok = op[1] in ref.frames[0]["vars"]
            try:
                delattr(ctx, op[1])
                sx.check(ok, "C13.delete-only-in-own-scope", detail=lambda m: {"history": tag})
                ref.frames[0]["vars"].pop(op[1], None)
            except AttributeError:
                sx.check(not ok, "C13.delete-only-in-own-scope", detail=lambda m: {"history": tag, "expected": "deletable"})
        elif kind == "uoa":
            v = newval()
            has, val = ref.lookup(op[1])
            r = ctx.use_or_assign_param(op[1], v)
            if not has:
                ref.frames[0]["vars"][op[1]] = v
                val = v
            sx.check(same(r, val), "C13.use_or_assign", detail=lambda m: {"history": tag})
        elif kind == "uoc":
            v = newval()
            called = []
            has, val = ref.lookup(op[1])
            r = ctx.use_or_create_param(op[1], lambda *a, **k: (called.append(1), v)[1], 1, x=2)
            if not has:
                ref.frames[0]["vars"][op[1]] = v
                val = v
            sx.check(same(r, val) and bool(called) == (not has), "C13.use_or_create", detail=lambda m: {"history": tag})
        elif kind == "cleanup":
            how = op[1]
            if how.startswith("layer:"):
                layer = how.split(":")[1]
                fr = ref.frame_for_layer(layer)
                if fr is None:
                    try:
                        ctx.add_cleanup(lambda: None, layer=layer)
                        sx.check(False, "C13.unknown-layer-rejected", detail=lambda m: {"history": tag})
                    except LookupError:
                        pass
                    continue
                fn, me = mk_cleanup(fr)
                ctx.add_cleanup(fn, layer=layer)
            elif how == "args":
                fn, me = mk_cleanup(ref.frames[0])
                ctx.add_cleanup(fn, 1, k=2)
            else:
                fn, me = mk_cleanup(ref.frames[0])
                ctx.add_cleanup(fn)
        elif kind == "cleanup-shared":
            # the SAME callable registered again: runs exactly once in every scope it was registered for
            how = op[1]
            if how.startswith("layer:"):
                fr = ref.frame_for_layer(how.split(":")[1])
                if fr is None:
                    continue
            else:
                fr = ref.frames[0]
            if "shared" not in fr["cleanups"]:
                fr["cleanups"].append("shared")
            if how.startswith("layer:"):
                ctx.add_cleanup(shared_fn, layer=how.split(":")[1])
            else:
                ctx.add_cleanup(shared_fn)
        elif kind == "fixture":
            how = op[1]
            if how == "gen":
                cid[0] += 1
                me = cid[0]
                ref.frames[0]["cleanups"].append(me)

                @fixture
                def fx(context, me=me):
                    yield "setup%d" % me
                    ran.append(me)
                    if sx.bool("raise%d" % me):
                        raise RuntimeError("fixture cleanup %d" % me)
                r = use_fixture(fx, ctx)
                sx.check(r == "setup%d" % me, "C13.fixture-setup-result")
            elif how == "gen-nested":
                # generator fixture whose SETUP part registers a plain cleanup and uses another generator fixture:
                # the outer fixture was asked for first, so its teardown runs after both of them
                cid[0] += 3
                me, inner_c, inner_f = cid[0] - 2, cid[0] - 1, cid[0]
                ref.frames[0]["cleanups"].extend([me, inner_c, inner_f])

                @fixture
                def fx_inner(context, inner_f=inner_f):
                    yield "inner%d" % inner_f
                    ran.append(inner_f)
                    if sx.bool("raise%d" % inner_f):
                        raise RuntimeError("fixture cleanup %d" % inner_f)

                @fixture
                def fx_outer(context, me=me, inner_c=inner_c):
                    def plain_cleanup():
                        ran.append(inner_c)
                        if sx.bool("raise%d" % inner_c):
                            raise RuntimeError("cleanup %d" % inner_c)
                    context.add_cleanup(plain_cleanup)
                    use_fixture(fx_inner, context)
                    yield "setup%d" % me
                    ran.append(me)
                    if sx.bool("raise%d" % me):
                        raise RuntimeError("fixture cleanup %d" % me)
                r = use_fixture(fx_outer, ctx)
                sx.check(r == "setup%d" % me, "C13.fixture-setup-result")
            elif how == "plain":
                @fixture
                def fx2(context):
                    return "plain"
                sx.check(use_fixture(fx2, ctx) == "plain", "C13.fixture-setup-result")
            elif how == "failing-gen":
                # generator fixture whose setup part raises: use_fixture raises, nothing of it remains to be cleaned
                cid[0] += 1
                me = cid[0]
                ref.frames[0]["cleanups"].append(("dead", me))

                @fixture
                def fx3(context):
                    raise ValueError("setup failed")
                    yield None      # noqa
                try:
                    use_fixture(fx3, ctx)
                    sx.check(False, "C13.failing-fixture-setup-raises")
                except ValueError:
                    pass
                ref.frames[0]["cleanups"].pop()     # its cleanup part never produces an observable action
            else:
                # composite: first sub-fixture set up, second fails -> the first one's teardown still runs at scope end
                cid[0] += 1
                me = cid[0]
                ref.frames[0]["cleanups"].append(me)

                @fixture
                def good(context, me=me):
                    yield "good"
                    ran.append(me)
                    if sx.bool("raise%d" % me):
                        raise RuntimeError("fixture cleanup %d" % me)

                @fixture
                def bad(context):
                    raise ValueError("bad setup")
                try:
                    use_composite_fixture_with(ctx, [fixture_call_params(good), fixture_call_params(bad)])
                    sx.check(False, "C13.failing-fixture-setup-raises")
                except ValueError:
                    pass
        observe(tag)
    # final probe: exactly the names the current scope set itself can be deleted in it
    for name in NAMES:
        ok = name in ref.frames[0]["vars"]
        try:
            delattr(ctx, name)
            sx.check(ok, "C13.delete-only-in-own-scope", detail=lambda m, name=name: {"history": list(history), "probe": "del " + name})
            ref.frames[0]["vars"].pop(name, None)
        except AttributeError:
            sx.check(not ok, "C13.delete-only-in-own-scope", detail=lambda m, name=name: {"history": list(history), "probe": "del " + name, "expected": "deletable"})
        except KeyError:
            sx.check(False, "C13.delete-only-in-own-scope", detail=lambda m, name=name: {"history": list(history), "probe": "del " + name, "raised": "KeyError"})
    observe(list(history) + ["probe-del"])
    # unwind everything: every registered cleanup ran exactly once overall
    while len(ref.frames) > 1:
        before = len(ran)
        expect = list(reversed(ref.frames[0]["cleanups"]))
        try:
            ctx._pop()
        except Exception:     # noqa
            pass
        ref.frames.pop(0)
        got = ran[before:]
        sx.check(got == expect, "C13.cleanups-lifo-exactly-once-at-scope-end",
                 detail=lambda m: {"history": list(history), "ran": got, "expected": expect, "phase": "unwind"})
        observe(list(history) + ["unwind"])
    before = len(ran)
    expect = list(reversed(ref.frames[0]["cleanups"]))
    try:
        ctx._do_cleanups()
    except Exception:     # noqa
        pass
    sx.check(ran[before:] == expect, "C13.cleanups-lifo-exactly-once-at-scope-end",
             detail=lambda m: {"history": list(history), "ran": ran[before:], "expected": expect, "phase": "testrun"})
    own = [c for c in ran if c != "shared"]
    sx.check(len(set(own)) == len(own), "C13.no-cleanup-runs-twice", detail=lambda m: {"history": list(history), "ran": ran})
    return {"history": [list(o) for o in history], "ran": list(ran)}


# ---------------------------------------------------------------------------------------------
# real runs: cleanups registered by hooks at every level and by steps
# ---------------------------------------------------------------------------------------------
def h_cleanup_runs(sx):
    registered = []     # (key, owner eid or None for testrun, layer)

    seen_tags = []

    def probe(w, name, context, args):
        if name in ("after_rule", "after_feature"):
            # behave's own scoped attribute: after a rule / feature ends its hooks still see that element's tags
            seen_tags.append((name, w._label(args[0]), sorted(context.tags) if "tags" in context else None, sorted(str(t) for t in args[0].tags)))
        if name == "after_all":
            seen_tags.append((name, None, sorted(context.tags) if "tags" in context else None, None))
        if name in ("before_all", "before_feature", "before_rule", "before_scenario"):
            owner = None if name == "before_all" else w._label(args[0])
            key = "%s@%s" % (name, owner)

            def cleanup():
                w.cleanup_log.append(key)
                w.timeline.append(("cleanup", key))
                if w.clean(key):
                    w.events.append(("cleanup-raised", key))
                    raise RuntimeError("cleanup %s" % key)
            cleanup.__name__ = "cleanup_" + name
            context.add_cleanup(cleanup)
            registered.append((key, owner))

    w, flags = build_world(sx, {"hooks": True, "fault": False, "cleanups": True, "hook_probe": probe})
    w.run()
    sx.check(w.escaped is None, "C13.run.no-exception-escapes", detail=lambda m: repr(w.escaped))
    if w.escaped is not None:
        return w.observable()
    for (hook_, who_, got_, want_) in seen_tags:
        sx.check(got_ == want_, "C13.run.context-tags-scoped-to-feature-and-rule",
                 detail=lambda m, hook_=hook_, who_=who_, got_=got_, want_=want_: {"hook": hook_, "element": who_, "context.tags": got_, "expected": want_})
    layer = w.opts.get("cleanup_layer")
    by_id = {}
    for rd in w.rendered:
        by_id.update(rd.by_id)
    # step-registered cleanups (outcome 6): owner = scenario, or the named layer's element
    for ev in w.timeline:
        pass
    step_regs = []
    for (sid, src) in [tuple(c) for c in w.calls]:
        o = w.out(sid, src)
        if o == 6:
            key = "%s:%s" % (sid, src)
            if w.opts.get("cleanup_shared"):
                if any(k == "shared" for k, _ in step_regs):
                    continue
                key = "shared"
            e = by_id[sid]
            if layer == "feature":
                owner = [a for a in [e] + list(e.ancestors()) if a.kind == "feature"][0].eid
            elif layer == "testrun":
                owner = None
            else:
                owner = sid
            step_regs.append((key, owner))
    allregs = registered + step_regs
    tl = w.timeline

    def det(m):
        return {"timeline": [list(map(str, t)) for t in tl], "registered": allregs, "status": w.status_table(),
                "verdict": w.verdict, "events": [list(map(str, e)) for e in w.events]}
    ran = [t[1] for t in tl if t[0] == "cleanup"]
    for key, owner in allregs:
        sx.check(ran.count(key) == 1, "C13.run.cleanup-exactly-once", detail=lambda m, key=key: dict(det(m), key=key))
    # scope end: cleanups of owner X run right after X's last after-hook, in reverse registration order
    owners = []
    for key, owner in allregs:
        if owner not in owners:
            owners.append(owner)
    for owner in owners:
        keys = [k for k, o in allregs if o == owner]
        # registration order = order of appearance of registration events: hooks first in timeline order
        expect = list(reversed(keys))
        if owner is None:
            end_marker = ("hook", "after_all", None)
        else:
            kind = by_id[owner].kind
            hk = {"feature": "after_feature", "rule": "after_rule", "scenario": "after_scenario", "row": "after_scenario"}[kind]
            end_marker = ("hook", hk, owner)
        if end_marker not in tl:
            continue
        i = tl.index(end_marker) + 1
        # the element's own after_tag hooks still run inside its scope: they come before its cleanups
        k_ = i
        tag_pos, clean_pos = [], []
        while k_ < len(tl) and ((tl[k_][0] == "hook" and tl[k_][1] == "after_tag") or (tl[k_][0] == "cleanup" and tl[k_][1] in keys)):
            (tag_pos if tl[k_][0] == "hook" else clean_pos).append(k_)
            k_ += 1
        sx.check(not tag_pos or not clean_pos or max(tag_pos) < min(clean_pos), "C13.run.after-tag-hooks-inside-the-scope",
                 detail=lambda m, owner=owner: dict(det(m), owner=owner))
        while i < len(tl) and tl[i][0] == "hook" and tl[i][1] == "after_tag":
            i += 1
        seg = [t[1] for t in tl[i:i + len(keys)] if t[0] == "cleanup"]
        # registration order among step-registered and hook-registered ones of one owner follows the timeline
        sx.check(sorted(seg) == sorted(keys), "C13.run.cleanup-at-scope-end", detail=lambda m, owner=owner, seg=seg: dict(det(m), owner=owner, segment=seg))
        sx.check(seg == expect, "C13.run.cleanup-reverse-order", detail=lambda m, owner=owner, seg=seg, expect=expect: dict(det(m), owner=owner, segment=seg, expected=expect))
    if w.opts.get("cleanup_shared"):
        # the same callable registered from several scenarios for the feature layer runs exactly once, at feature end
        nshared = ran.count("shared")
        sx.check(nshared == (1 if w.shared_registrations else 0), "C13.run.same-callable-runs-once-per-scope",
                 detail=lambda m: dict(det(m), registrations=w.shared_registrations, runs=nshared))
    raised = [e[1] for e in w.events if e[0] == "cleanup-raised"]
    st = w.status_table()
    if raised:
        sx.check(w.verdict is True, "C13.run.raising-cleanup-fails-run", detail=det)
    bad_owners = set()
    for key in raised:
        owner = [o for k, o in allregs if k == key][0]
        if owner is not None:
            bad_owners.add(owner)
            if not any(f for f in []):
                sx.check(st[owner] == "error", "C13.run.raising-cleanup-marks-owner-error", detail=lambda m, owner=owner: dict(det(m), owner=owner))
    # later/other elements unaffected: scenarios keep the step statuses the reference predicts
    ex = runspec(w, flags)
    real = w.step_status_table()
    if raised and flags["stop"]:
        # --stop: a raising cleanup fails its scenario/feature, so the run legitimately ends there (the reference does not
        # model cleanup errors); what ran before is still compared
        cut = [e.eid for e in w.scenario_elems()]
        first_bad = min([cut.index(o) for o in bad_owners if o in cut] or [len(cut)])
        keep = set(cut[:first_bad + 1])
        real = {k: v for k, v in real.items() if k in keep}
        ex.steps = {k: v for k, v in ex.steps.items() if k in keep}
    sx.check(real == ex.steps, "C13.run.steps-unaffected-by-cleanup-errors", detail=lambda m: dict(det(m), real=real, expected=ex.steps))
    for e in w.scenario_elems():
        if e.eid in bad_owners or any(a.eid in bad_owners for a in e.ancestors()):
            continue
        if st[e.eid] == "error":
            sx.check(any(s in ("error", "undefined", "pending", "hook_error") for s in real[e.eid]),
                     "C13.run.no-spurious-error", detail=lambda m, e=e: dict(det(m), elem=e.eid))
    return w.observable()


def h_execute_steps(sx):
    """Nested step execution restores the caller's text/table."""
    from behave.parser import parse_feature
    from behave.runner import ModelRunner, Context
    from behave.step_registry import StepRegistry
    from vlib.world import base_config
    text = u'''Feature: x
  Scenario: s
    Given outer
      | col |
      | v1  |
    When outer2
      """
      doc
      """
'''
    feature = parse_feature(text, filename="x.feature")
    reg = StepRegistry()
    seen = {}
    inner_out = sx.int("inner_outcome", 0, 2)
    nested_kind = sx.int("nested_has", 0, 2)     # 0: plain, 1: with table, 2: with text

    two_levels = sx.bool("inner_step_executes_steps_itself")

    def innermost(context):
        seen["innermost_text"] = context.text

    def inner(context):
        seen["inner_table"] = context.table
        seen["inner_text"] = context.text
        if two_levels:
            # a second level of nesting: every level gets its own text/table back
            context.execute_steps(u'Given innermost\n  """\n  deepest doc\n  """')
            seen["inner_table_after"] = context.table
            seen["inner_text_after"] = context.text
        if inner_out == 1:
            raise AssertionError("inner fails")
        if inner_out == 2:
            raise RuntimeError("inner raises")

    def outer(context):
        seen["table_before"] = context.table
        sub = u"Given inner"
        if nested_kind == 1:
            sub += u"\n  | other |\n  | zz |"
        elif nested_kind == 2:
            sub += u'\n  """\n  nested doc\n  """'
        try:
            context.execute_steps(sub)
            seen["sub_failed"] = False
        except AssertionError:
            seen["sub_failed"] = True
        seen["table_after"] = context.table
        seen["text_after"] = context.text

    def outer2(context):
        seen["text2_before"] = context.text
        try:
            context.execute_steps(u"Given inner")
        except AssertionError:
            pass
        seen["text2_after"] = context.text
        seen["table2_after"] = context.table
    reg.add_step_definition("given", u"innermost", innermost)
    reg.add_step_definition("given", u"inner", inner)
    reg.add_step_definition("given", u"outer", outer)
    reg.add_step_definition("when", u"outer2", outer2)
    cfg = base_config(("--no-summary",))
    cfg.stdout_capture = cfg.stderr_capture = cfg.log_capture = False
    r = ModelRunner(cfg, features=[feature], step_registry=reg)
    r.context = Context(r)
    import contextlib, io
    with contextlib.redirect_stdout(io.StringIO()):
        r.run_model()
    sc = feature.scenarios[0]
    t0 = sc.steps[0].table
    d = lambda m: {k: repr(v) for k, v in seen.items()}
    sx.check(seen.get("table_before") is t0, "C13.exec.outer-sees-own-table", detail=d)
    sx.check(seen.get("sub_failed") == bool(inner_out != 0), "C13.exec.substep-failure-raises-assertion", detail=d)
    if not seen.get("sub_failed"):
        sx.check(seen.get("table_after") is t0 and seen.get("text_after") is None, "C13.exec.restores-table-text", detail=d)
    if "inner_text_after" in seen:
        sx.check(seen["inner_table_after"] is seen["inner_table"] and seen["inner_text_after"] == seen["inner_text"],
                 "C13.exec.restores-table-text", detail=d)
    if "text2_before" in seen:
        sx.check(seen["text2_after"] == seen["text2_before"] or inner_out != 0, "C13.exec.restores-table-text", detail=d)
    return {k: (str(v) if v is not None else None) for k, v in sorted(seen.items())}


REACH_OPS = ["C13.contains-agrees", "C13.get-agrees(visibility)", "C13.cleanups-lifo-exactly-once-at-scope-end"]


def jobs(tier, seed):
    js = []
    n = 3 if tier == "quick" else 4
    if tier == "quick":
        for a in range(N_CORE):
            js.append(Job("ops.n%d.%02d" % (n, a), "props.c13:h_ctx_ops", {"n": n, "prefix": [a]},
                          reach=REACH_OPS[:2], min_paths=50, cost=100, validate=40, max_paths=400000, closure=False))
    else:
        for a in range(N_CORE):
            for b in range(N_CORE):
                if OPS[a][0] == "fixture" and OPS[b][0] == "fixture":
                    # the heaviest shards (two fixtures with symbolic failure flags) are split once more by the third operation
                    for c in range(N_CORE):
                        js.append(Job("ops.n%d.%02d.%02d.%02d" % (n, a, b, c), "props.c13:h_ctx_ops", {"n": n, "prefix": [a, b, c]},
                                      reach=[], min_paths=1, cost=50, validate=2, max_paths=400000, budget_s=1500, closure=False))
                    continue
                js.append(Job("ops.n%d.%02d.%02d" % (n, a, b), "props.c13:h_ctx_ops", {"n": n, "prefix": [a, b]},
                              reach=[], min_paths=5, cost=100, validate=4, max_paths=400000, budget_s=1500, closure=False))
    ix = lambda *op: OPS.index(tuple(op))
    scoped = [ix("push", None), ix("cleanup", "layer:scenario"), ix("cleanup", "layer:rule"), ix("cleanup", "layer:feature"), ix("cleanup", "plain"),
              ix("pop"), ix("set", "a"), ix("del", "a"), ix("push", "scenario"), ix("fixture", "gen")]
    for name, prefix in (("feature-scenario-unnamed", [ix("push", "feature"), ix("push", "scenario"), ix("push", None)]),
                         ("rule-unnamed-unnamed", [ix("push", "rule"), ix("push", None), ix("push", None)])):
        js.append(Job("ops.scoped.%s" % name, "props.c13:h_ctx_ops", {"n": len(prefix) + (3 if tier == "quick" else 4), "prefix": prefix, "ops": scoped},
                      reach=REACH_OPS, min_paths=50, cost=2000, validate=40, max_paths=400000, closure=False))
    runs = {
        "sc-layer": ([F([S(2, tags=["t1", "t2"]), S(1)])], {"out_dom": {"*": [5, 6]}}),
        "feature-layer": ([F([S(1), R([S(1)], tags=["rt"])], tags=["ft"])], {"out_dom": {"*": [6, 6]}, "cleanup_layer": "feature"}),
        "testrun-layer": ([F([S(1)]), F([S(1)])], {"out_dom": {"*": [6, 6]}, "cleanup_layer": "testrun"}),
        "hook-skip": ([F([S(1), S(1)])], {"out_dom": {"*": [6, 6]}, "hook_skip_scenario": True, "undef": False}),
        "shared-feature-layer": ([F([S(1), S(2), S(1)])], {"out_dom": {"*": [5, 6]}, "cleanup_layer": "feature", "cleanup_shared": True}),
    }
    if tier == "thorough":
        runs.update({
            "outline": ([F([O(1, [(2, [])]), S(1)])], {"out_dom": {"*": [5, 6]}}),
            "mixed-outcomes": ([F([S(2), R([S(1)])])], {"out_dom": {"*": [0, 6]}, "stop": "sym"}),
        })
    for name, (sh, opts) in runs.items():
        js.append(Job("run.%s" % name, "props.c13:h_cleanup_runs", {"shapes": sh, "opts": opts},
                      reach=["C13.run.cleanup-exactly-once", "C13.run.cleanup-reverse-order", "C13.run.raising-cleanup-fails-run",
                             "C13.run.raising-cleanup-marks-owner-error"] if name != "shared-feature-layer" else ["C13.run.same-callable-runs-once-per-scope"],
                      min_paths=20, cost=3000,
                      validate=100 if tier == "quick" else 1000))
    js.append(Job("execute_steps", "props.c13:h_execute_steps", {}, reach=["C13.exec.restores-table-text"], min_paths=5,
                  cost=50, validate="all"))
    return js
