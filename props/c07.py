"""C07 - tag expressions (v2) mean their Boolean formula; printing preserves meaning."""
import random

import z3

import symx
from symx import SymTagSet, zbool
from vlib.runner import Job
from vlib import tagspec as T

CALL_PROFILE = ["cucumber_tag_expressions.model", "behave.tag_expression.v1", "behave.tag_expression.model"]

META = {
    "functions": ["behave.tag_expression.builder.make_tag_expression/_parse_tag_expression_v2/TagExpressionProtocol.parse",
                  "behave.tag_expression.parser.TagExpressionParser.make_operand", "behave.tag_expression.model.Matcher.evaluate/contains_wildcards",
                  "behave.tag_expression.model._Expression_check/_Expression_to_string/_Not_to_string (patches)",
                  "cucumber_tag_expressions.model.And/Or/Not/Literal.evaluate/__str__ (instrumented third-party)",
                  "cucumber_tag_expressions.parser.TagExpressionParser.parse (run concretely per expression)",
                  "behave.configuration.Configuration.setup_tag_expression ({config.tags} substitution)"],
    "bounds": {
        "quick": "all trees of depth<=1 and a seeded sample of 80 depth-2 trees over 6 operands (plain, dotted, dash/'=' names, wildcards "
                 "a.*, ?x, [ab]c), each in 10 renderings; for each expression ALL subsets of a 14-tag universe (tag membership = 14 z3 Booleans)",
        "thorough": "all depth<=2 trees over 4 operands plus 600 seeded depth-2/3 trees over 6 operands, 10 renderings",
    },
    "outside": ["tag names as unbounded symbolic strings (fnmatch compiles to a C regex); names needing escapes (spaces, parentheses, backslashes)"],
    "assumptions": ["wildcard meaning in the oracle = own shell-style matcher (*, ?, [seq], [!seq]) written from the fnmatch documentation"],
    "leverage": "data-symbolic: the tag set is 14 z3 Booleans; impl == formula is a solver query per evaluation trace (complete truth table without enumeration)",
}

OPERANDS = [["lit", "a"], ["lit", "b.c"], ["lit", "x-y=1"], ["wild", "a.*"], ["wild", "?x"], ["wild", "[ab]c"]]
UNIVERSE = ["a", "b.c", "x-y=1", "a.x", "a.", "ax", "A.x", "A", "zx", "x", "ac", "bc", "cc", "zzz"]
RENDERINGS = ["min", "at", "allparens", "spaces", "list", "list-at", "list-parens", "wrap", "wrap-at", "list-wrap"]


def tagset(sx, universe, prefix="has:"):
    bits = {t: sx.bool(prefix + t) for t in universe}
    if sx.symbolic:
        return SymTagSet(universe, bits, lazy=True), {t: zbool(b) for t, b in bits.items()}
    return [t for t in universe if bits[t]], {t: z3.BoolVal(bool(b)) for t, b in bits.items()}


def render(tree, how):
    if how == "min":
        return T.render_v2(tree)
    if how == "at":
        return T.render_v2(tree, at=True)
    if how == "allparens":
        return T.render_v2(tree, parens="all")
    if how == "spaces":
        return "  " + T.render_v2(tree, space="  ") + " "
    if how == "list":
        return T.render_v2_list(tree)
    if how == "wrap":           # redundant parentheses around the whole expression: "(a)", "( a or b )"
        return "( %s )" % T.render_v2(tree)
    if how == "wrap-at":
        return "(%s)" % T.render_v2(tree, at=True)
    if how == "list-wrap":
        return ["(%s)" % t for t in T.render_v2_list(tree)]
    if how == "list-parens":
        # list-of-terms form whose terms have every operand parenthesised: "(a) or (b)", "not (a)"
        terms = tree[1:] if tree[0] == "and" else [tree]
        out = []
        for t in terms:
            txt = T.render_v2(t, parens="all")
            if t[0] in ("and", "or") and txt.startswith("(") and txt.endswith(")"):
                txt = txt[1:-1]
            out.append(txt)
        return out
    return T.render_v2_list(tree, at=True)


def trees_for(tier, seed):
    ops4 = OPERANDS[:2] + OPERANDS[3:4] + OPERANDS[5:6]
    base = T.gen_trees(OPERANDS, 1)
    rnd = random.Random(1000 + seed)
    d2 = T.gen_trees(ops4, 2)
    if tier == "quick":
        extra = rnd.sample(d2, 80)
    else:
        big = T.gen_trees(OPERANDS[:5], 2)
        extra = d2 + rnd.sample(big, 600)
    fixed = [["and", ["or", ["lit", "a"], ["wild", "[ab]c"]], ["not", ["lit", "b.c"]]],
             ["not", ["wild", "[ab]c"]], ["or", ["and", ["lit", "a"], ["not", ["wild", "?x"]]], ["lit", "x-y=1"]],
             ["not", ["not", ["lit", "a"]]], ["and", ["lit", "a"], ["lit", "b.c"], ["wild", "a.*"]],
             ["and", ["or", ["lit", "a"], ["lit", "b.c"]], ["not", ["lit", "x-y=1"]]],
             ["and", ["or", ["and", ["lit", "a"], ["lit", "zzz"]], ["and", ["lit", "b.c"], ["lit", "zzz"]]], ["lit", "x"]],
             # wildcards combining ? / [..] with a trailing or leading *
             ["wild", "a?*"], ["not", ["wild", "[ab]?*"]], ["and", ["wild", "?x*"], ["not", ["lit", "a"]]], ["or", ["wild", "*[.]?"], ["lit", "A"]],
             ["wild", "[!a]*"],
             # match-all patterns: true for every tagged element, false for an untagged one ("not *" = untagged only)
             ["wild", "*"], ["not", ["wild", "*"]], ["or", ["not", ["wild", "*"]], ["lit", "a"]], ["and", ["wild", "**"], ["not", ["lit", "b.c"]]],
             ["wild", "?*"],
             # a star in the middle: the literal parts before and after it do not overlap inside the tag
             ["wild", "a*a"], ["not", ["wild", "x*x"]], ["and", ["wild", "a.*.x"], ["not", ["lit", "zzz"]]], ["or", ["wild", "b.*.c"], ["wild", "c*cc"]]]
    return base + fixed + extra


def h_v2(sx):
    from behave.tag_expression.builder import make_tag_expression, TagExpressionProtocol
    trees = sx.params["trees"]
    i = sx.choice("expr", list(range(len(trees))))
    i = i if isinstance(i, int) else i.concretize()
    hw = sx.choice("rendering", list(range(len(RENDERINGS))))
    hw = hw if isinstance(hw, int) else hw.concretize()
    tree = trees[i]
    text = render(tree, RENDERINGS[hw])
    tags, member = tagset(sx, UNIVERSE)
    spec = T.formula(tree, member, UNIVERSE)
    proto = TagExpressionProtocol.V2 if sx.params.get("protocol", "v2") == "v2" else TagExpressionProtocol.AUTO_DETECT
    try:
        expr = make_tag_expression(text, proto)
    except Exception as e:      # noqa
        sx.check(False, "C07.well-formed-expression-parses", detail={"text": text, "error": repr(e)})
        return {"text": text, "error": repr(e)}
    r = expr.check(tags)
    r = bool(r)
    det = lambda m: {"text": text, "tree": tree, "impl": r, "tags": [t for t in UNIVERSE if (sx.eval(sx.bool("has:" + t), m) if m is not None else sx.bool("has:" + t))]}
    sx.check(spec if r else z3.Not(spec), "C07.check==formula", detail=det)
    # printing preserves meaning (str and to_string), which {config.tags} substitution relies on
    for how, printed in (("str", str(expr)), ("to_string", expr.to_string())):
        try:
            e2 = make_tag_expression(printed, proto)
            r2 = bool(e2.check(tags))
        except Exception as e:      # noqa
            sx.check(False, "C07.printed-text-reparses", detail={"text": text, "printed": printed, "error": repr(e)})
            continue
        sx.check(spec if r2 else z3.Not(spec), "C07.print-parse-roundtrip(%s)" % how,
                 detail=lambda m, printed=printed: dict(det(m), printed=printed))
    return {"text": text, "result": r}


def h_history(sx):
    """Several different expressions evaluated one after the other in one process against the SAME tag list: each answer is
    that expression's own formula (no state shared between expression objects)."""
    from behave.tag_expression.builder import make_tag_expression, TagExpressionProtocol
    small = ["a", "b.c", "ax"]
    tags = [t for t in small if bool(sx.bool("has:" + t))]          # a concrete list per path (2^3 paths)
    member = {t: z3.BoolVal(t in tags) for t in small}
    pool = [["lit", "a"], ["not", ["lit", "a"]], ["or", ["lit", "a"], ["lit", "b.c"]], ["and", ["wild", "a*"], ["not", ["lit", "b.c"]]], ["true"]]
    got = []
    for k in range(3):
        i = sx.choice("expr%d" % k, list(range(len(pool))))
        i = i if isinstance(i, int) else i.concretize()
        tree = pool[i]
        text = T.render_v2(tree, at=bool(k % 2))
        r = bool(make_tag_expression(text, TagExpressionProtocol.V2).check(list(tags)))
        want = z3.is_true(z3.simplify(T.formula(tree, member, small)))
        got.append([text, r])
        sx.check(r == want, "C07.check==formula", detail={"evaluated_so_far": list(got), "tags": tags, "expected": want})
    return got


def h_special(sx):
    """empty expression == true; {config.tags} substitution == formula-level substitution."""
    from behave.tag_expression.builder import make_tag_expression, TagExpressionProtocol
    from vlib.world import base_config
    tags, member = tagset(sx, UNIVERSE)
    for text in ("", "   ", []):
        for proto in (TagExpressionProtocol.V2, TagExpressionProtocol.AUTO_DETECT):
            try:
                e = make_tag_expression(text, proto)
                sx.check(bool(e.check(tags)) is True, "C07.empty-selects-everything", detail={"text": text, "protocol": proto.name})
            except Exception as ex:     # noqa
                sx.check(False, "C07.empty-selects-everything", detail={"text": text, "error": repr(ex)})
    defaults = sx.params["defaults"]
    i = sx.choice("default", list(range(len(defaults))))
    i = i if isinstance(i, int) else i.concretize()
    dtree = defaults[i]
    dtext = T.render_v2(dtree, at=bool(sx.params.get("at")))
    if sx.params.get("config_list"):
        # configured tags with several terms (multi-line "tags =" in the config file / several default_tags items)
        dtext = T.render_v2_list(dtree, at=bool(sx.params.get("at")))
    for outer, otree in (("({config.tags})", dtree),
                         ("{config.tags} and x", ["and", dtree, ["lit", "x"]]),
                         ("not {config.tags}", ["not", dtree]),
                         ("zzz or {config.tags}", ["or", ["lit", "zzz"], dtree]),
                         ("{config.tags} or zzz and x", ["or", dtree, ["and", ["lit", "zzz"], ["lit", "x"]]]),
                         # the placeholder may occur more than once in a term
                         ("({config.tags} and x) or ({config.tags} and zzz)", ["or", ["and", dtree, ["lit", "x"]], ["and", dtree, ["lit", "zzz"]]])):
        if sx.params.get("after_v1"):
            # an earlier configuration of the same process chose the old dialect
            cfg0 = base_config(("--no-summary",))
            cfg0.tag_expression_protocol = TagExpressionProtocol.V1
            cfg0.tags = ["a,b.c"]
            cfg0.setup_tag_expression()
        cfg = base_config(("--no-summary",))
        cfg.tag_expression_protocol = TagExpressionProtocol.V2 if sx.params.get("protocol", "v2") == "v2" else TagExpressionProtocol.AUTO_DETECT
        if sx.bool("configured_through_default_tags"):
            # the configured expression may come from the option default_tags instead of tags
            cfg.config_tags = None
            cfg.default_tags = dtext
        else:
            cfg.config_tags = dtext
            cfg.default_tags = ""
        cfg.tags = outer if not sx.params.get("as_list") else [outer]
        if sx.params.get("as_list") and outer == "{config.tags} and x":
            # several --tags options, the placeholder in only one of them
            cfg.tags = ["{config.tags}", "x"]
        if sx.params.get("as_list") and outer == "zzz or {config.tags}":
            cfg.tags = ["a or not a", "zzz or {config.tags}", "ax or not ax"]
        try:
            cfg.setup_tag_expression()
            r = bool(cfg.tag_expression.check(tags))
        except Exception as ex:     # noqa
            sx.check(False, "C07.config-tags-substitution", detail={"default": dtext, "outer": outer, "error": repr(ex)})
            continue
        finally:
            TagExpressionProtocol.use(TagExpressionProtocol.DEFAULT)
        spec = T.formula(otree, member, UNIVERSE)
        sx.check(spec if r else z3.Not(spec), "C07.config-tags-substitution",
                 detail=lambda m, outer=outer: {"default": dtext, "outer": outer, "impl": r,
                                                "tags": [t for t in UNIVERSE if (sx.eval(sx.bool("has:" + t), m) if m is not None else sx.bool("has:" + t))]})
    return {"default": dtext}


def jobs(tier, seed):
    trees = trees_for(tier, seed)
    js = []
    chunk = 12 if tier == "quick" else 25
    for k in range(0, len(trees), chunk):
        js.append(Job("v2.%03d" % (k // chunk), "props.c07:h_v2", {"trees": trees[k:k + chunk]},
                      reach=["C07.check==formula", "C07.print-parse-roundtrip(str)", "C07.print-parse-roundtrip(to_string)"],
                      min_paths=20, cost=100, validate=30 if tier == "quick" else 100, closure=False))
    js.append(Job("v2.auto", "props.c07:h_v2", {"trees": trees[:24], "protocol": "auto"},
                  reach=["C07.check==formula"], min_paths=20, cost=100, validate=30, closure=False))
    js.append(Job("history", "props.c07:h_history", {}, reach=["C07.check==formula"], min_paths=50, cost=100, validate=40, closure=False))
    defaults = [["lit", "a"], ["or", ["lit", "a"], ["lit", "b.c"]], ["not", ["lit", "a"]], ["and", ["lit", "a"], ["not", ["wild", "a.*"]]],
                ["or", ["not", ["lit", "a"]], ["and", ["lit", "b.c"], ["wild", "[ab]c"]]], ["not", ["or", ["lit", "a"], ["lit", "b.c"]]],
                ["and", ["or", ["lit", "a"], ["lit", "b.c"]], ["lit", "x-y=1"]]]
    for at in (False, True):
        for as_list in (False, True):
            for proto in ("v2", "auto"):
                js.append(Job("special.at%d.list%d.%s" % (at, as_list, proto), "props.c07:h_special",
                              {"defaults": defaults, "at": at, "as_list": as_list, "protocol": proto, "config_list": bool(as_list)},
                              reach=["C07.empty-selects-everything", "C07.config-tags-substitution"], min_paths=6, cost=50,
                              validate=30, closure=False))
    js.append(Job("special.after-v1", "props.c07:h_special",
                  {"defaults": defaults, "at": False, "as_list": False, "protocol": "v2", "after_v1": True},
                  reach=["C07.config-tags-substitution"], min_paths=6, cost=50, validate=30, closure=False))
    return js
