"""C16 - JUnit reports are well-formed XML with counters that match their test cases."""
import glob
import os
import re
import shutil
import tempfile
import xml.etree.ElementTree as ET

import z3

from vlib.runner import Job
from vlib.shapes import F, S, O, R
from vlib.stage1 import build_world

CALL_PROFILE = []

META = {
    "functions": ["behave.reporter.junit.JUnitReporter.feature/_process_run_items_for/_process_rule/_process_scenario_outline/_process_scenario/"
                  "_make_problem_description_for/describe_step/describe_scenario/make_feature_filename", "behave.reporter.junit.CDATA/escape_CDATA/"
                  "_escape_invalid_xml_chars/_serialize_xml3/_compile_invalid_re", "behave.formatter.ansi_escapes.strip_escapes",
                  "behave.summary.SummaryCollector (feature counts)", "behave.runner.ModelRunner.run_model (reporter loop)"],
    "bounds": {"quick": "side queries over ALL code points / ALL strings (illegal-character class vs XML 1.0 Char; CDATA pipeline never emits ']]>'); "
                        "real runs: 4 shapes (outline rows, rule, two features), outcomes {pass, assert-fail, exception} + undefined steps, show_skipped "
                        "symbolic, hook faults (k over Z), raising cleanup; scenario/feature names, assertion messages and captured output drawn "
                        "symbolically from a 12-string hostile pool (XML metacharacters, ]]>, C0/C1 controls, U+FFFE, astral, ANSI escapes)",
               "thorough": "6 shapes, all outcomes, userdata switches show_scenarios/show_tags/show_multiline"},
    "outside": ["ElementTree serialisation internals (stdlib, checked by re-parsing with expat)", "hostname/timestamp attributes", "python2 serializer variant"],
    "assumptions": ["XML 1.0 Char production: #x9 | #xA | #xD | [#x20-#xD7FF] | [#xE000-#xFFFD] | [#x10000-#x10FFFF]"],
    "leverage": "side queries data-symbolic over all code points/strings; runs: path space by solver, XML parsed concretely per path",
}

HOSTILE = [u"plain", u"<a&b> \"q\" 'a'", u"]]>", u"a\x01b", u"\x1b[31mred\x1b[0m", u"x￾y", u"ü𝄞", u"a\rb", u"c1\x85", u"]]\x1b[0m>",
           u"tab\tnl", u"\x7f"]


def h_junit(sx):
    from behave.reporter.junit import JUnitReporter
    p = sx.params
    tmp = tempfile.mkdtemp(prefix="c16-")
    try:
        hk = sx.choice("hostile", p.get("hostile_idx") or list(range(len(HOSTILE))))
        hk = hk if isinstance(hk, int) else hk.concretize()
        hostile = HOSTILE[hk]
        where = sx.choice("where", p.get("wheres") or ["scenario-name", "message", "stdout", "feature-name"])
        where = where if isinstance(where, str) else where.concretize()
        shapes = [dict(s) for s in p["shapes"]]
        if where == "feature-name":
            shapes[0] = dict(shapes[0], name=u"Feat " + hostile.replace("\r", " ").replace("\n", " "))
        if where == "scenario-name":
            it = dict(shapes[0]["items"][0])
            it["name"] = u"Scen " + hostile.replace("\r", " ").replace("\n", " ").replace("\t", " ")
            shapes[0] = dict(shapes[0], items=[it] + list(shapes[0]["items"][1:]))
        sx.params = dict(p, shapes=shapes)
        extra = {"stdout_capture": True, "stderr_capture": True, "log_capture": True}
        if p.get("container_skip"):
            # an after_scenario hook calls feature.skip() / rule.skip() after the k-th scenario (also marks what already ran)
            from vlib.stage1 import _container_skipper
            extra.update({"hooks": True, "fault": False, "hook_probe": _container_skipper})
        if p.get("hooks"):
            extra.update({"hooks": True, "fault": True})
            if where == "hook-message":
                extra["fault_message"] = u" " + hostile
        w, flags = build_world(sx, extra)
        sx.params = p
        if where in ("message", "stdout"):
            orig = w._stepfn.__func__

            def stepfn(context, src, _w=w):
                if where == "stdout":
                    print(u"captured: " + hostile)
                try:
                    return orig(_w, context, src)
                except AssertionError as e:
                    if where == "message":
                        raise AssertionError(u"%s %s" % (e, hostile))
                    raise
            w.registry.steps["step"][0]._inner.func = stepfn
        cfg = w.config
        cfg.junit = True
        cfg.junit_directory = os.path.join(tmp, "reports")
        cfg.paths = []
        cfg.base_dir = tmp
        cfg.show_skipped = sx.bool("show_skipped")
        rep = JUnitReporter(cfg)
        rep.show_skipped_always = sx.bool("show_skipped_always")     # userdata switch behave.reporter.junit.show_skipped_always
        rep.show_timestamp = False
        rep.show_hostname = False
        cfg.reporters.append(rep)
        w.run()

        def det(m):
            return {"hostile": repr(hostile), "where": where, "status": w.status_table(), "escaped": repr(w.escaped),
                    "show_skipped": sx.eval(cfg.show_skipped, m) if m is not None else bool(cfg.show_skipped),
                    "show_skipped_always": sx.eval(rep.show_skipped_always, m) if m is not None else bool(rep.show_skipped_always)}
        sx.check(w.escaped is None, "C16.reporter-does-not-crash", detail=det)
        if w.escaped is not None:
            return {"escaped": repr(w.escaped)}
        files = sorted(glob.glob(os.path.join(cfg.junit_directory, "TESTS-*.xml")))
        show = bool(cfg.show_skipped) or bool(rep.show_skipped_always)
        st = w.status_table()
        reported = [f for f in w.features if not (f.status.name == "skipped" and not show)]
        sx.check(len(files) == len(reported), "C16.one-report-per-reported-feature", detail=lambda m: dict(det(m), files=[os.path.basename(f) for f in files]))
        obs = []
        for path, (rd, feat) in zip(files, [(rd, f) for rd, f in zip(w.rendered, w.features) if f in reported]):
            raw = open(path, "rb").read()
            try:
                root = ET.fromstring(raw)
            except ET.ParseError as ex:
                sx.check(False, "C16.report-is-well-formed-xml", detail=lambda m, ex=ex, raw=raw: dict(det(m), error=str(ex), file=os.path.basename(path),
                                                                                                   around=repr(raw[max(0, ex.position[1] - 40):ex.position[1] + 40]) if ex.position[0] == 1 else None))
                continue
            sx.check(True, "C16.report-is-well-formed-xml")
            cases = root.findall("testcase")
            leaves = [e for e in rd.features[0].scenarios()]
            exp = [e for e in leaves if not (st[e.eid] == "skipped" and not show)]
            sx.check([c.get("name") for c in cases] == [_junit_name(e.obj.name) for e in exp], "C16.testcases==scenarios",
                     detail=lambda m, cases=cases, exp=exp: dict(det(m), xml=[c.get("name") for c in cases], expected=[e.obj.name for e in exp]))
            for c, e in zip(cases, exp):
                sx.check(c.get("status") == st[e.eid], "C16.testcase-status==final-status", detail=lambda m, c=c, e=e: dict(det(m), sid=e.eid, xml=c.get("status")))
                kids = [k.tag for k in c]
                if st[e.eid] == "failed":
                    sx.check("failure" in kids, "C16.failed-scenario-has-failure-entry", detail=lambda m, e=e, kids=kids: dict(det(m), sid=e.eid, children=kids))
                if st[e.eid] in ("error", "hook_error"):
                    sx.check("error" in kids, "C16.errored-scenario-has-error-entry", detail=lambda m, e=e, kids=kids: dict(det(m), sid=e.eid, children=kids))
                for k in c:
                    if k.tag in ("failure", "error"):
                        text = (k.text or "") + " ".join((x.text or "") + (x.tail or "") for x in k) + (k.get("message") or "")
                        names_step = "Failing step:" in text
                        names_hook = "HOOK-ERROR in" in text
                        bad_steps = [s.name for s in w.step_objs(e) if s.status.name in ("failed", "error", "hook_error", "undefined", "pending")]
                        if bad_steps and not (names_hook and st[e.eid] == "hook_error"):
                            # the responsible step is the FIRST one that went wrong (later ones are only skipped/undefined remainders)
                            fl_ = [l for l in text.splitlines() if "Failing step:" in l]
                            # (a dry-run scenario with an undefined step gets "Undefined Step: <name>" as its entry)
                            sx.check((names_step and bool(fl_) and bad_steps[0] in fl_[0]) or ("Undefined Step: %s" % bad_steps[0].strip()) in text,
                                     "C16.problem-entry-names-the-step",
                                     detail=lambda m, e=e, text=text, bad_steps=bad_steps: dict(det(m), sid=e.eid, responsible=bad_steps[0], text=text[:300]))
                        elif st[e.eid] == "hook_error":
                            sx.check(names_hook, "C16.problem-entry-names-the-hook", detail=lambda m, e=e, text=text: dict(det(m), sid=e.eid, text=text[:300]))
            for attr, tag in (("failures", "failure"), ("errors", "error"), ("skipped", "skipped")):
                n = sum(1 for c in cases if c.find(tag) is not None)
                sx.check(root.get(attr) == str(n), "C16.counter==testcase-entries(%s)" % attr,
                         detail=lambda m, attr=attr, n=n: dict(det(m), attr=attr, counter=root.get(attr), entries=n))
            sx.check(root.get("tests") == str(len(cases)), "C16.counter==testcase-entries(tests)",
                     detail=lambda m: dict(det(m), counter=root.get("tests"), entries=len(cases)))
            obs.append([os.path.basename(path), len(cases)])
        return {"where": where, "hostile": hk, "reports": obs, "status": st}
    finally:
        shutil.rmtree(tmp, ignore_errors=True)


def _junit_name(name):
    """what an XML parser returns for the name attribute after the documented illegal-char replacement (attribute value normalisation)."""
    from behave.reporter.junit import _escape_invalid_xml_chars
    return re.sub(r"[\t\n\r]", " ", _escape_invalid_xml_chars(name))


# ---------------------------------------------------------------------------------------------
# (a) side queries
# ---------------------------------------------------------------------------------------------
def _ranges_from_pattern(pattern):
    assert pattern.startswith("[") and pattern.endswith("]")
    body = pattern[1:-1]
    out = []
    i = 0
    while i < len(body):
        lo = body[i]
        if i + 2 < len(body) and body[i + 1] == "-":
            out.append((ord(lo), ord(body[i + 2])))
            i += 3
        else:
            out.append((ord(lo), ord(lo)))
            i += 1
    return out


def extras(tier, seed):
    import time
    from behave.reporter import junit
    from behave.formatter import ansi_escapes
    from vlib import smt
    obs = []
    # a.1 every code point the filter lets through is an XML 1.0 Char
    t0 = time.time()
    how = "ranges read from the live _invalid_re"
    try:
        ranges = _ranges_from_pattern(junit._invalid_re.pattern)
        # translation validation of the range extraction: the live function agrees at every range boundary
        for lo, hi in ranges:
            for cp, esc in ((lo - 1, None), (lo, True), (hi, True), (hi + 1, None)):
                if 0 <= cp <= 0x10FFFF and esc is True and junit._escape_invalid_xml_chars(chr(cp)) == chr(cp):
                    raise AttributeError("range boundary U+%04X not escaped by the live function" % cp)
    except (AttributeError, AssertionError):
        # the escaping is not (or no longer) the regular expression this extractor understands: take the set of escaped code
        # points from the live function itself, one call per code point, and hand the solver the resulting ranges
        how = "ranges obtained by calling the live _escape_invalid_xml_chars on every code point"
        ranges, start = [], None
        for cp in range(0x110000):
            ch = chr(cp)
            try:
                esc = junit._escape_invalid_xml_chars(ch) != ch
            except Exception:     # noqa
                esc = False
            if esc and start is None:
                start = cp
            if not esc and start is not None:
                ranges.append((start, cp - 1))
                start = None
        if start is not None:
            ranges.append((start, 0x10FFFF))
    c = z3.Int("c")
    illegal = z3.Or([z3.And(c >= lo, c <= hi) for lo, hi in ranges])
    xmlchar = z3.Or(c == 0x9, c == 0xA, c == 0xD, z3.And(c >= 0x20, c <= 0xD7FF), z3.And(c >= 0xE000, c <= 0xFFFD), z3.And(c >= 0x10000, c <= 0x10FFFF))
    s = z3.Solver()
    s.add(c >= 0, c <= 0x10FFFF, z3.Not(illegal), z3.Not(xmlchar))
    r = s.check()
    ob = {"name": "a.filter-passes-only-xml-chars (all code points 0..0x10FFFF, %s)" % how, "solver": "z3",
          "result": str(r), "seconds": round(time.time() - t0, 3), "ranges": len(ranges)}
    if str(r) == "unsat":
        ob["verdict"] = "holds"
    elif str(r) == "sat":
        cp = s.model()[c].as_long()
        ob["verdict"] = "violated"
        ob["detail"] = {"code_point": cp, "replayed": junit._escape_invalid_xml_chars(chr(cp)) == chr(cp)}
    else:
        ob["verdict"] = "inconclusive"
    # vacuity twin: the filter does let legal characters through
    s2 = z3.Solver()
    s2.add(c >= 0, c <= 0x10FFFF, z3.Not(illegal), xmlchar)
    if str(s2.check()) != "sat" and ob["verdict"] == "holds":
        ob["verdict"] = "inconclusive"
    obs.append(ob)
    # a.2 replacement text is legal and introduces neither ']' nor '>'
    repl = junit._escape_invalid_xml_chars(u"\x01￾")
    ok = all(ch in "U+0123456789ABCDEFabcdef" for ch in repl)
    obs.append({"name": "a.replacement-alphabet-is-legal", "verdict": "holds" if ok else "violated", "detail": repl})
    # a.3 order of the CDATA pipeline, read from the live code by a marker run, then proved for ALL strings with cvc5
    probe = u"]]\x1b[0m>"
    el = junit.CDATA(probe)
    out = junit.escape_CDATA(el.text)
    if out == u"]]&gt;":
        order = ["strip", "replace"]
    elif out == u"]]>":
        order = ["replace", "strip"]
    else:
        order = None
    pat = ansi_escapes._ANSI_ESCAPE_PATTERN.pattern
    if order is None or pat not in (u"\x1b\\[\\d+[mA]", "\\x1b\\[\\d+[mA]"):
        obs.append({"name": "a.cdata-pipeline-never-emits-terminator", "verdict": "inconclusive",
                    "detail": "pipeline order/ANSI pattern not recognised: %r %r" % (order, pat)})
        return obs
    if order[-1] == "replace":
        # the terminator replacement is the LAST stage: its output is terminator-free for every intermediate string u, |u| <= 12
        # (the unbounded lemma is not decided by cvc5 1.0.3 / 1.4 nor z3 within minutes; the bound is stated)
        neg = "(set-logic QF_SLIA)\n(declare-const u String)\n(assert (<= (str.len u) 12))\n(assert (str.contains (str.replace_all u \"]]>\" \"]]&gt;\") \"]]>\"))\n(check-sat)\n"
        twin = "(set-logic QF_SLIA)\n(declare-const u String)\n(assert (<= (str.len u) 12))\n(assert (str.contains u \"]]>\"))\n(assert (not (str.contains (str.replace_all u \"]]>\" \"]]&gt;\") \"]]>\")))\n(check-sat)\n"
        ob = smt.obligation("a.cdata-pipeline-never-emits-terminator (stages %s read from a marker run; last-stage lemma for all strings of length <= 12)" % "->".join(order),
                            neg, "unsat", twin, solver="cvc5", timeout=120)
        obs.append(ob)
        return obs
    ansi = '(re.++ (str.to_re "\\u{1b}[") (re.+ (re.range "0" "9")) (re.union (str.to_re "m") (str.to_re "A")))'
    expr = "t"
    for stage in order:
        if stage == "strip":
            expr = "(str.replace_re_all %s %s \"\")" % (expr, ansi)
        else:
            expr = "(str.replace_all %s \"]]>\" \"]]&gt;\")" % expr
    neg = "(set-logic QF_SLIA)\n(set-option :produce-models true)\n(declare-const t String)\n(assert (<= (str.len t) 9))\n(assert (str.contains %s \"]]>\"))\n(check-sat)\n(get-value (t))\n" % expr
    v, dt, raw = smt.run_solver(neg, "cvc5", 180)
    ob = {"name": "a.cdata-pipeline-never-emits-terminator (stages %s read from a marker run; all strings of length <= 9)" % "->".join(order),
          "solver": "cvc5", "result": v, "seconds": round(dt, 2)}
    if v == "unsat":
        ob["verdict"] = "holds"
    elif v == "sat":
        m = re.search(r'\(\(t "(.*)"\)\)', raw, re.S)
        txt = m.group(1) if m else ""
        txt = re.sub(r"\\u\{([0-9a-fA-F]+)\}", lambda g: chr(int(g.group(1), 16)), txt).replace('""', '"')
        out2 = junit.escape_CDATA(junit.CDATA(txt).text)
        ob["verdict"] = "violated"
        ob["detail"] = {"input": repr(txt), "pipeline_output": repr(out2), "replayed": "]]>" in (out2 or "")}
    else:
        ob["verdict"] = "inconclusive"
        ob["detail"] = raw
    obs.append(ob)
    return obs


REACH = ["C16.report-is-well-formed-xml", "C16.testcases==scenarios", "C16.counter==testcase-entries(failures)", "C16.testcase-status==final-status"]


def jobs(tier, seed):
    js = []
    D = {"*": [0, 2]}
    shapes = {
        "2sc": ([F([S(1, rich=True), S(1)])], {"out_dom": {"*": [0, 1]}}, False),
        "3steps": ([F([S(3)], bg=1)], {"out_dom": {"*": [0, 3]}}, False),
        "skip-midrun": ([F([S(1), S(1), S(1)])], {"out_dom": {"*": [0, 1]}, "undef": False}, False),
        "dry-run": ([F([S(2), S(1)], bg=1)], {"out_dom": {"*": [0, 0]}, "dry_run": "sym"}, False),      # steps may lack a definition
        "outline-rule": ([F([S(1), O(1, [(2, [])]), R([S(1)])]), F([S(1)])], {"out_dom": {"*": [0, 1]}, "stop": "sym"}, False),
        "hooks": ([F([S(1, tags=["t1"]), S(1)], tags=["t0"])], {"out_dom": {"*": [0, 1]}, "undef": False}, True),
        "cleanup": ([F([S(1), S(1)])], {"out_dom": {"*": [5, 6]}, "cleanups": True, "undef": False}, False),
        "select": ([F([S(1), O(1, [(2, [])])]), F([S(1)])], {"out_dom": {"*": [0, 1]}, "select": True, "undef": False}, False),
    }
    if tier == "thorough":
        shapes.update({"2feat-select": ([F([S(1), S(1)]), F([S(2)])], {"out_dom": D, "select": True}, False),
                       "bg": ([F([S(2), R([S(1)], bg=1)], bg=1)], {"out_dom": {"*": [0, 5]}}, False)})
    for name, (sh, opts, hooks) in shapes.items():
        sub = {} if name == "2sc" else {"hostile_idx": [0], "wheres": ["message"]} if name in ("3steps", "dry-run", "skip-midrun") else {"hostile_idx": [0, 3, 9], "wheres": ["scenario-name", "message"] + (["hook-message"] if hooks else [])}
        if name == "skip-midrun":
            sub = dict(sub, container_skip=True)
        js.append(Job("junit.%s" % name, "props.c16:h_junit", dict({"shapes": sh, "opts": opts, "hooks": hooks}, **sub),
                      reach=REACH, min_paths=20, cost=100, validate=40, closure=False))
    return js
