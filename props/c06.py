"""C06 - Scenario Outline expansion: one scenario per row, exact placeholder substitution."""
import copy
import re

import symx
from symx import SymChoice, lift_call
from vlib.runner import Job

CALL_PROFILE = ["behave.model"]

META = {
    "functions": ["behave.model.ScenarioOutline.scenarios/_is_any_example_table_modified", "behave.model.ScenarioOutlineBuilder.build_scenarios/"
                  "make_scenario_for/make_scenario_name/make_row_tags/make_step_for_row/render_template/is_parametrized_tag",
                  "behave.model.Table.add_row/add_column/clear/remove_column, Row", "behave.model.Tag.make_name", "behave.parser (concrete outline text)"],
    "bounds": {"quick": "one outline (placeholders in name, step names, doc-string, step-table headings and cells, one parametrised tag; two examples "
                        "blocks with different column orders, tags and row counts), one row at a time symbolic over 96 hostile value tuples (empty, "
                        "blanks, unicode, pipes, other column names as plain text and as <placeholder> text, unknown placeholders), 3 annotation "
                        "schemas; table-API histories of length <=2 over 9 operations after a first expansion; cvc5 identity for unbounded bracket-free values",
               "thorough": "every row position, histories of length <=3, 5 cvc5 templates"},
    "outside": ["values containing '<column>' for ALL strings: only through the finite pool (the documented meaning is unambiguous for bracket-free values)",
                "placeholders for the builder's own parameters (<row.id>, <examples.name>) inside templates"],
    "assumptions": ["reference expansion = single-pass simultaneous substitution of <column> tokens"],
    "leverage": "finite alphabet merged: the symbolic row is one selector over value tuples, all string operations are lifted pointwise, equality with the reference is a solver query",
}

TEXT = u'''Feature: F
  @tag.<t> @plain
  Scenario Outline: Name <a> and <b> -- plain
    Given step with <a>
      | h<a> | fixed |
      | <b>  | x<a>y |
    When doc <b>:
      """
      text <a> <b> <a>
      no placeholder
      """
    Then no placeholder here
    And total > <a> but -> <b> ok
      """
      a > b: <a>
      """
      | k<b> | both |
      | <a>  | <t>  |

    @ex1 @req/PAY-7 @c++
    Examples: First <a>
      | a | b | t |
      | A1 | B1 | T1 |
      # a comment and a blank line between the rows

      | A2 | B2 | T2 |

    @ex2 @ex3
    Examples:
      | t | b | a |
      | T3 | B3 | A3 |

    @ex4
    Examples: Header only
      | a | b | t |
'''
SCHEMAS = [u"{name} -- @{row.id} {examples.name}", u"{name} [{examples.index}/{row.index}]", u"{name}"]
A_VALUES = [u"", u"1", u"x y", u"ü€", u"b", u"a|b", u"<zz>", u" pad ", u"<b>", u"<t>", u"a", u">x<",
            u"C:\\temp\\new", u"^\\d+$ \\1"]        # backslashes are ordinary characters of a cell
B_VALUES = [u"2", u"", u"a", u"<a>"]
T_VALUES = [u"x", u"y1"]
ROWS = [(a, b, t) for a in A_VALUES for b in B_VALUES for t in T_VALUES]
TOKEN = re.compile(r"<([^<>]+)>")


def subst(template, mapping):
    """Reference: every <column> token replaced by the row's cell, in ONE pass."""
    return TOKEN.sub(lambda m: mapping[m.group(1)] if m.group(1) in mapping else m.group(0), template)


def tagname(text):
    # documented tag normalisation for substituted tags: whitespace -> "_" (values used here are tag-safe otherwise)
    return re.sub(r"\s", "_", text)


def expected_for(template, block_index, row_index, ex_name, ex_tags, headings, cells, schema, line):
    m = dict(zip(headings, cells))
    exn = subst(ex_name, m)

    class D(object):
        pass
    ex = D()
    ex.name = exn
    ex.index = block_index
    ex.id = exn
    row = D()
    row.id = "%d.%d" % (block_index, row_index)
    row.index = row_index
    row.name = row.id
    steps = []
    for st in template["steps"]:
        steps.append({"name": subst(st["name"], m), "text": subst(st["text"], m) if st["text"] is not None else None,
                      "headings": [subst(h, m) for h in st["headings"]] if st["headings"] is not None else None,
                      "rows": [[subst(c, m) for c in r] for r in st["rows"]] if st["rows"] is not None else None})
    # (a tag whose placeholder names no column of this block is dropped)
    tags = [tagname(subst(t, m)) if ("<" in t and ">" in t) else t for t in template["tags"]
            if all(tok in m for tok in TOKEN.findall(t))] + list(ex_tags)
    return {"name": schema.format(name=subst(template["name"], m), examples=ex, row=row), "steps": steps, "tags": tags, "line": line}


def snapshot(outline):
    return {"name": outline.name, "tags": [str(t) for t in outline.tags],
            "steps": [{"name": s.name, "text": (str(s.text) if s.text is not None else None),
                       "headings": list(s.table.headings) if s.table is not None else None,
                       "rows": [list(r.cells) for r in s.table.rows] if s.table is not None else None} for s in outline.steps]}


# the same outline with placeholders ONLY in the doc-string and the step table (all step names are plain text)
TEXT_PLAIN_NAMES = TEXT.replace("Given step with <a>", "Given step with a table").replace("When doc <b>:", "When doc follows:") \
                       .replace("And total > <a> but -> <b> ok", "And total > a but -> b ok")


# the second block has fewer columns than the first: <a> and <t> stay literal there (and the tag with <t> is dropped)
TEXT_RAGGED = TEXT.replace("      | t | b | a |\n      | T3 | B3 | A3 |", "      | b |\n      | B3 |")
assert TEXT_RAGGED != TEXT


def _text(variant):
    return {"plain-names": TEXT_PLAIN_NAMES, "ragged": TEXT_RAGGED, "hist": TEXT_HIST}.get(variant, TEXT)


def row_lines(text):
    """Line numbers of the Examples data rows, read from the text itself (not from the parsed model)."""
    out, state = [], None
    for no, line in enumerate(text.splitlines(), 1):
        t = line.strip()
        if t.startswith("Examples"):
            state = "header"
        elif state and t.startswith("|"):
            if state == "header":
                state = "rows"
            else:
                out.append(no)
        elif state and t and not t.startswith("#") and not t.startswith("@"):
            state = None
    return out


def _parse(variant=None):
    from behave.parser import parse_feature
    f = parse_feature(_text(variant), filename="o.feature")
    return f, f.run_items[0]


def eqv(a, b):
    return lift_call(lambda x, y: x == y, (a, b), {})


def h_expand(sx):
    p = sx.params
    f, outline = _parse(p.get("variant"))
    bi, ri = p["block"], p["row"]
    schema = SCHEMAS[p.get("schema", 0)]
    outline.annotation_schema = schema
    template = snapshot(outline)
    row = sx.choice("row", ROWS)
    table = outline.examples[bi].table
    hd = table.headings
    vals = {"a": row[0], "b": row[1], "t": row[2]}
    table.rows[ri].cells[:] = [vals[h] for h in hd]
    hostile = lift_call(lambda r: any(("<%s>" % c) in v for v in r for c in ("a", "b", "t")), (row,), {})
    try:
        scenarios = outline.scenarios
    except Exception as e:      # noqa - whatever the cells contain, the expansion itself never fails
        err = "%s: %s" % (type(e).__name__, e)
        sx.check(False, "C06.expansion-succeeds", detail=lambda m: {"row": sx.eval(row, m) if m is not None else row, "position": [bi, ri], "error": err})
        return "expansion failed"
    # expected list: block-then-row order
    exp = []
    k = 0
    for xi, ex in enumerate(outline.examples):
        for rj, r in enumerate(ex.table.rows):
            cells = list(r.cells)
            if xi == bi and rj == ri:
                e = lift_call(lambda a, b, t, _h=list(ex.table.headings), _xi=xi, _rj=rj, _ex=ex, _r=r: expected_for(
                    template, _xi + 1, _rj + 1, _ex.name, [str(t_) for t_ in _ex.tags], _h, [dict(a=a, b=b, t=t)[h] for h in _h], schema, _r.line),
                    (vals["a"], vals["b"], vals["t"]), {})
            else:
                e = expected_for(template, xi + 1, rj + 1, ex.name, [str(t_) for t_ in ex.tags], list(ex.table.headings), cells, schema, r.line)
            exp.append(e)

    def det(m):
        return {"row": sx.eval(row, m) if m is not None else row, "position": [bi, ri], "schema": schema,
                "names": [repr(sx.eval(s.name, m) if isinstance(s.name, SymChoice) and m is not None else s.name) for s in scenarios]}
    known = [("C06-F10", hostile)]
    sx.check(len(scenarios) == len(exp), "C06.one-scenario-per-row", detail=det)
    true_lines = row_lines(_text(p.get("variant")))
    sx.check([sc.line for sc in scenarios] == true_lines, "C06.located-at-row-line",
             detail=lambda m: dict(det(m), scenario_lines=[sc.line for sc in scenarios], row_lines_in_text=true_lines))
    for i, (sc, e) in enumerate(zip(scenarios, exp)):
        sym = isinstance(e, SymChoice)
        g = lambda key: (e._apply(lambda d: d[key]) if sym else e[key])
        sx.check(eqv(sc.name, g("name")), "C06.name-substituted", detail=lambda m, i=i: dict(det(m), index=i), known=known)
        sx.check(sc.line == (g("line") if not sym else e.cands[0][1]["line"]), "C06.located-at-row-line", detail=lambda m, i=i: dict(det(m), index=i))
        tags = [t for t in sc.tags]
        etags = g("tags")
        sx.check(eqv(lift_call(lambda *ts: [str(t) for t in ts], tuple(tags), {}), etags), "C06.tags=outline+examples",
                 detail=lambda m, i=i, tags=tags: dict(det(m), index=i, tags=[repr(sx.eval(t, m) if isinstance(t, SymChoice) and m is not None else t) for t in tags]),
                 known=known)
        esteps = g("steps")
        got_steps = lift_call(lambda *xs: None, (), {})
        for j, stp in enumerate(sc.steps):
            es = (esteps._apply(lambda l, j=j: l[j]) if isinstance(esteps, SymChoice) else esteps[j])
            ge = lambda key, es=es: (es._apply(lambda d: d[key]) if isinstance(es, SymChoice) else es[key])
            sx.check(eqv(stp.name, ge("name")), "C06.step-name-substituted", detail=lambda m, i=i, j=j: dict(det(m), index=i, step=j), known=known)
            if stp.text is not None:
                sx.check(eqv(lift_call(lambda t: str(t), (stp.text,), {}), ge("text")), "C06.doc-string-substituted",
                         detail=lambda m, i=i, j=j: dict(det(m), index=i, step=j), known=known)
            if stp.table is not None:
                sx.check(eqv(lift_call(lambda *hs: list(hs), tuple(stp.table.headings), {}), ge("headings")), "C06.step-table-substituted",
                         detail=lambda m, i=i, j=j: dict(det(m), index=i, step=j), known=known)
                cells = [c for r in stp.table.rows for c in r.cells]
                flat = lift_call(lambda rows: [c for r in rows for c in r], (ge("rows"),), {})
                sx.check(eqv(lift_call(lambda *cs: list(cs), tuple(cells), {}), flat), "C06.step-table-substituted",
                         detail=lambda m, i=i, j=j: dict(det(m), index=i, step=j), known=known)
    # rows never influence the template
    sx.check(snapshot(outline) == template, "C06.template-unchanged", detail=det)
    return "ok"


OPS = ["add_row:0", "add_row:1", "add_column:0", "add_column:1", "clear:0", "clear:1", "remove_column:0", "access", "none", "add_row_obj:0"]
# the history harness uses a template that also names a column which only exists after add_column("new")
TEXT_HIST = TEXT.replace("    Then no placeholder here", "    Then no placeholder here but <new>")
assert TEXT_HIST != TEXT


TAG_TEXT = u'''Feature: F
  @browser=<browser-name> @v.<ver/x> @plain
  Scenario Outline: T <browser-name>
    Given a step
    Examples:
      | browser-name | ver/x |
      | %s | %s |
      | chrome | 2 |
'''


def h_tag_columns(sx):
    """Outline tags whose placeholder names are not identifier-like (dash, slash): replaced by the row's cell all the same."""
    from behave.parser import parse_feature
    pool = [u"firefox", u"a.b", u"7", u"edge-dev"]
    c1 = sx.choice("cell1", pool)
    c1 = c1 if isinstance(c1, str) else c1.concretize()
    c2 = sx.choice("cell2", [u"1", u"x.y", u"beta"])
    c2 = c2 if isinstance(c2, str) else c2.concretize()
    f = parse_feature(TAG_TEXT % (c1, c2), filename="t.feature")
    rows = f.run_items[0].scenarios
    got = [[str(t) for t in sc.tags] for sc in rows]
    exp = [[u"browser=%s" % c1, u"v.%s" % c2, u"plain"], [u"browser=chrome", u"v.2", u"plain"]]
    sx.check(got == exp, "C06.tags=outline+examples", detail={"cells": [c1, c2], "got": got, "expected": exp})
    sx.check([sc.name.split(" -- ")[0] for sc in rows] == [u"T %s" % c1, u"T chrome"], "C06.name-substituted",
             detail={"cells": [c1, c2], "names": [sc.name for sc in rows]})
    return got


UNTAGGED_TEXT = u'''Feature: F
  Scenario Outline: T <n>
    Given a step
    @smoke %s
    Examples: A
      | n |
      | 1 |
      | 2 |
    @slow
    Examples: B
      | n |
      | 3 |
    Examples: C
      | n |
      | 4 |
'''


def h_untagged_outline(sx):
    """An outline WITHOUT own tags: each row carries exactly the tags of its own Examples block; the template stays untagged."""
    from behave.parser import parse_feature
    extra = sx.choice("extra_tag", [u"", u"@x.y", u"@a=1"])
    extra = extra if isinstance(extra, str) else extra.concretize()
    f = parse_feature(UNTAGGED_TEXT % extra, filename="u.feature")
    outline = f.run_items[0]
    got = [[str(t) for t in sc.tags] for sc in outline.scenarios]
    a = [u"smoke"] + ([extra[1:]] if extra else [])
    exp = [a, a, [u"slow"], []]
    sx.check(got == exp, "C06.tags=outline+examples", detail={"got": got, "expected": exp})
    sx.check([str(t) for t in outline.tags] == [], "C06.template-unchanged", detail={"outline_tags": [str(t) for t in outline.tags]})
    return got


def h_history(sx):
    """After the examples tables are modified through the table API the expansion is rebuilt."""
    from behave.model import Row
    f, outline = _parse("hist")
    n = sx.params["n"]
    first = outline.scenarios          # first expansion (as tag selection or a hook would trigger)
    hist = []
    for i in range(n):
        c = sx.choice("op%d" % i, list(range(len(OPS))))
        op = OPS[c if isinstance(c, int) else c.concretize()]
        hist.append(op)
        kind, _, arg = op.partition(":")
        if kind in ("add_row", "add_row_obj", "add_column", "clear", "remove_column"):
            table = outline.examples[int(arg)].table
            if kind == "add_row":
                table.add_row([u"N%d%s" % (i, h) for h in table.headings])
            elif kind == "add_row_obj":
                # a Row object that comes from elsewhere (rows of another table, Row(names, cells)): equal headings, own list
                table.add_row(Row(list(table.headings), [u"R%d%s" % (i, h) for h in table.headings]))
            elif kind == "add_column":
                name = u"new"
                if not table.has_column(name):
                    table.add_column(name, values=[u"v%d" % k for k in range(len(table.rows))])
            elif kind == "clear":
                table.clear()
            elif kind == "remove_column":
                if table.has_column("t") and len(table.headings) > 1:
                    table.remove_column("t")
        elif kind == "access":
            outline.scenarios
        template = snapshot(outline)
        exp = []
        for xi, ex in enumerate(outline.examples):
            for rj, r in enumerate(ex.table.rows):
                exp.append(expected_for(template, xi + 1, rj + 1, ex.name, [str(t) for t in ex.tags], list(ex.table.headings),
                                        list(r.cells), SCHEMAS[0], r.line))
        got = outline.scenarios
        d = lambda m: {"history": list(hist), "got": [s.name for s in got], "expected": [e["name"] for e in exp]}
        sx.check(len(got) == len(exp), "C06.rebuilt-after-table-change(count)", detail=d)
        sx.check([s.name for s in got] == [e["name"] for e in exp], "C06.rebuilt-after-table-change(names)", detail=d)
        sx.check([[st.name for st in s.steps] for s in got] == [[st["name"] for st in e["steps"]] for e in exp],
                 "C06.rebuilt-after-table-change(steps)", detail=d)
    return {"history": hist, "names": [s.name for s in outline.scenarios]}


def jobs(tier, seed):
    js = []
    positions = [(0, 0), (1, 0)] if tier == "quick" else [(0, 0), (0, 1), (1, 0)]
    for bi, ri in positions:
        for sch in range(len(SCHEMAS) if (bi, ri) == (0, 0) else 1):
            js.append(Job("expand.b%d.r%d.s%d" % (bi, ri, sch), "props.c06:h_expand", {"block": bi, "row": ri, "schema": sch},
                          reach=["C06.name-substituted", "C06.step-name-substituted", "C06.doc-string-substituted", "C06.step-table-substituted",
                                 "C06.tags=outline+examples", "C06.located-at-row-line", "C06.template-unchanged"],
                          min_paths=1, cost=100, validate=40, closure=False))
    js.append(Job("expand.ragged-columns", "props.c06:h_expand", {"block": 0, "row": 1, "schema": 0, "variant": "ragged"},
                  reach=["C06.name-substituted", "C06.tags=outline+examples"], min_paths=10, cost=500, validate=30))
    js.append(Job("expand.plain-names", "props.c06:h_expand", {"block": 0, "row": 1, "schema": 0, "variant": "plain-names"},
                  reach=["C06.doc-string-substituted", "C06.step-table-substituted", "C06.template-unchanged"],
                  min_paths=1, cost=100, validate=40, closure=False))
    js.append(Job("untagged-outline", "props.c06:h_untagged_outline", {}, reach=["C06.tags=outline+examples", "C06.template-unchanged"],
                  min_paths=3, cost=10, validate="all", closure=False))
    js.append(Job("tag-columns", "props.c06:h_tag_columns", {}, reach=["C06.tags=outline+examples"], min_paths=4, cost=10,
                  validate="all", closure=False))
    js.append(Job("history", "props.c06:h_history", {"n": 2 if tier == "quick" else 3},
                  reach=["C06.rebuilt-after-table-change(names)"], min_paths=20, cost=200, validate=60, closure=False))
    return js


# ---------------------------------------------------------------------------------------------
# (a) unbounded strings: the chain of str.replace that render_template performs equals the
#     reference concatenation for every bracket-free value (cvc5 str.replace_all)
# ---------------------------------------------------------------------------------------------
SMT_TEMPLATES = ["Given <a> and <b> then <a>!", "<a><b>", "x > <b>", "x<b>y<a>", "no placeholder", "<b><a><b>"]


def _smt_str(s):
    return '"' + s.replace('"', '""') + '"'


def _probe_chain():
    """Read placeholder format and replacement order from the live code by running it on markers."""
    from behave.model import ScenarioOutlineBuilder, Row
    row = Row([u"a", u"b"], [u"<b>", u"Y"])
    r1 = ScenarioOutlineBuilder.render_template(u"[<a>|<b>]", row)
    row2 = Row([u"b", u"a"], [u"Y", u"<b>"])
    r2 = ScenarioOutlineBuilder.render_template(u"[<a>|<b>]", row2)
    # sequential str.replace in column order gives exactly these two results
    return (r1, r2) == (u"[Y|Y]", u"[<b>|Y]")


def extras(tier, seed):
    from vlib import smt
    obs = []
    ok = _probe_chain()
    obs.append({"name": "a.render_template-is-sequential-replace-in-column-order", "verdict": "holds" if ok else "violated",
                "detail": "marker run of the live ScenarioOutlineBuilder.render_template", "replay_harness": None})
    if not ok:
        return obs
    templates = SMT_TEMPLATES[:3] if tier == "quick" else SMT_TEMPLATES
    for i, t in enumerate(templates):
        cols = ["a", "b"] + (["c"] if "<c>" in t else [])
        decl = "".join("(declare-const %s String)\n(assert (not (str.contains %s \"<\")))\n(assert (not (str.contains %s \">\")))\n" % (c, c, c)
                       for c in cols)
        chain = _smt_str(t)
        for c in cols:
            chain = "(str.replace_all %s %s %s)" % (chain, _smt_str("<%s>" % c), c)
        parts = []
        pos = 0
        for m in TOKEN.finditer(t):
            if m.group(1) in cols:
                if m.start() > pos:
                    parts.append(_smt_str(t[pos:m.start()]))
                parts.append(m.group(1))
                pos = m.end()
        if pos < len(t):
            parts.append(_smt_str(t[pos:]))
        ref = "(str.++ %s \"\")" % " ".join(parts) if parts else _smt_str(t)
        neg = "(set-logic QF_SLIA)\n%s(assert (not (= %s %s)))\n(check-sat)\n" % (decl, chain, ref)
        twin = "(set-logic QF_SLIA)\n%s(assert (= %s %s))\n(check-sat)\n" % (decl, chain, ref)
        ob = smt.obligation("a.replace-chain==reference[%d] %r" % (i, t), neg, "unsat", twin, solver="cvc5", timeout=90 if tier == "quick" else 300)
        obs.append(ob)
    return obs
