"""C04 - Gherkin parsing is faithful: structure, text, tags, step types and line numbers."""
import random

import symx
from symx import SymChoice
from vlib.runner import Job
from vlib import gherkin, gtree

CALL_PROFILE = ["behave.parser"]

META = {
    "functions": ["behave.parser.Parser.* (all action_*, _build_*, parse_step, parse_tags, match_keyword, _parse_loop, _select_last_background_step_type)",
                  "behave.parser.parse_feature/parse_steps/parse_scenario/parse_tags", "behave.model constructors incl. Table/Row/Text/Tag",
                  "behave.model.Feature.add_rule/add_background, Rule.add_background, ScenarioContainer.add_scenario", "behave.i18n.languages (keyword table, read live)"],
    "bounds": {"quick": "3 abstract trees (plain+And/But/*; backgrounds at feature and rule level with inheriting first steps; outline with tagged examples, "
                        "doc-strings of both quote styles, tables with escaped pipes/empty cells, multi-line tags), the lines of a sliding window (3 consecutive lines; all windows) symbolic over their variants "
                        "(<=3 keyword aliases x 3 indentations x trailing blanks/comment, cell paddings) while the rest of the document has its default rendering, "
                        "0/1 filler lines (blank/comment) between elements; "
                        "languages en + 4 seeded via '# language:' header; parse_steps/parse_scenario/parse_tags entry points on sub-documents",
               "thorough": "windows of 4 lines with stride 2, all aliases (max_alias off), 0/1/2 fillers, all languages in the table on the basic tree, 12 seeded languages on all trees"},
    "outside": ["free-form character-level text (names/cells are fixed strings per tree)", "parse_rule entry point (known finding C04-F14)",
                "model_describe renderers", "aliases that an earlier step kind would claim in that language (skipped, listed by the renderer)"],
    "assumptions": ["document = object whose splitlines() returns symbolic lines"],
    "leverage": "finite alphabet merged by the parser's own predicates: every combination of per-line variants is decided on a handful of paths per tree",
}


def member(x, lst):
    if isinstance(x, SymChoice):
        return x._apply(lambda v: v in lst)
    return x in lst


def eq(a, b):
    return a == b


class Cmp(object):
    def __init__(self, sx, doc):
        self.sx = sx
        self.doc = doc

    def check(self, cond, what, where, got=None, exp=None):
        sx = self.sx
        self.sx.check(cond, "C04." + what, detail=lambda m: {
            "where": where, "got": repr(sx.eval(got, m) if m is not None and isinstance(got, SymChoice) else got)[:200],
            "expected": repr(exp)[:200], "doc": self.doc(m)})

    def tags(self, obj, exp, where):
        got = list(obj.tags)
        self.check(len(got) == len(exp), "tags", where, [str(t) for t in got] if len(got) != len(exp) else None, exp)
        for g, e in zip(got, exp):
            self.check(eq(g, e), "tags", where, g, e)

    def common(self, obj, e, where, kw_key=None, aliases=None):
        self.check(eq(obj.name, e["name"]), "name", where, obj.name, e["name"])
        self.check(obj.line == e["line"], "line-number", where, obj.line, e["line"])
        if "desc" in e:
            got = list(obj.description)
            self.check(len(got) == len(e["desc"]), "description", where, got, e["desc"])
            for g, x in zip(got, e["desc"]):
                self.check(eq(g, x), "description", where, g, x)
        if aliases is not None:
            self.check(member(obj.keyword, aliases), "keyword-alias", where, obj.keyword, aliases)

    def steps(self, got, exp, where):
        self.check(len(got) == len(exp), "steps-count-order", where, [getattr(s, "line", None) for s in got], [s["line"] for s in exp])
        for i, (g, e) in enumerate(zip(got, exp)):
            w = "%s/step%d" % (where, i)
            self.check(eq(g.name, e["name"]), "step-name", w, g.name, e["name"])
            self.check(eq(g.step_type, e["type"]), "step-type", w, g.step_type, e["type"])
            self.check(g.line == e["line"], "line-number", w, g.line, e["line"])
            self.check(member(g.keyword, e["keywords"]), "keyword-alias", w, g.keyword, e["keywords"])
            if e["text"] is None:
                self.check(g.text is None, "doc-string", w, g.text, None)
            else:
                self.check(g.text is not None and eq(g.text, e["text"]), "doc-string", w, g.text, e["text"])
                if g.text is not None:
                    ln = g.text.line if not isinstance(g.text, SymChoice) else g.text._apply(lambda v: v.line)
                    self.check(eq(ln, e["text_line"]), "line-number", w + "/text", ln, e["text_line"])
            self.table(g.table, e["table"], w)

    def table(self, got, exp, where):
        if exp is None:
            self.check(got is None, "table", where, got, None)
            return
        self.check(got is not None, "table", where, got, exp)
        if got is None:
            return
        hs = list(got.headings)
        self.check(len(hs) == len(exp["headings"]), "table-cells", where, hs, exp["headings"])
        for g, e in zip(hs, exp["headings"]):
            self.check(eq(g, e), "table-cells", where, g, e)
        self.check(eq(got.line, exp["line"]), "line-number", where + "/table", got.line, exp["line"])
        rows = list(got.rows)
        self.check(len(rows) == len(exp["rows"]), "table-rows", where, len(rows), len(exp["rows"]))
        for r, e in zip(rows, exp["rows"]):
            cells = list(r.cells)
            self.check(len(cells) == len(e["cells"]), "table-cells", where, cells, e["cells"])
            for g, x in zip(cells, e["cells"]):
                self.check(eq(g, x), "table-cells", where, g, x)
            self.check(eq(r.line, e["line"]), "line-number", where + "/row", r.line, e["line"])

    def background(self, got, exp, where, aliases):
        if exp is None:
            # a rule inside a feature with background gets a default (step-less) background
            self.check(got is None or not list(got.steps), "background", where, got, None)
            return
        self.check(got is not None, "background", where, got, exp)
        if got is None:
            return
        self.common(got, exp, where + "/background", aliases=aliases)
        self.steps(list(got.steps), exp["steps"], where + "/background")

    def items(self, cont, exp_items, where, R):
        import behave.model as model
        got = list(cont.run_items)
        self.check(len(got) == len(exp_items), "structure-order", where, [type(g).__name__ for g in got], [e["k"] for e in exp_items])
        for i, (g, e) in enumerate(zip(got, exp_items)):
            w = "%s/%s%d" % (where, e["k"], i)
            cls = {"s": model.Scenario, "o": model.ScenarioOutline, "r": model.Rule}[e["k"]]
            self.check(type(g) is cls, "structure-order", w, type(g).__name__, cls.__name__)
            if type(g) is not cls:
                continue
            self.tags(g, e["tags"], w)
            key = {"s": "scenario", "o": "scenario_outline", "r": "rule"}[e["k"]]
            self.common(g, e, w, aliases=R.aliases(key))
            if e["k"] == "r":
                self.background(g.background, e["bg"], w, R.aliases("background"))
                self.items(g, e["items"], w, R)
            else:
                self.steps(list(g.steps), e["steps"], w)
                if e["k"] == "o":
                    exs = list(g.examples)
                    self.check(len(exs) == len(e["examples"]), "examples", w, len(exs), len(e["examples"]))
                    for j, (gx, ex) in enumerate(zip(exs, e["examples"])):
                        wx = "%s/examples%d" % (w, j)
                        self.tags(gx, ex["tags"], wx)
                        self.common(gx, ex, wx, aliases=R.aliases("examples"))
                        self.table(gx.table, ex["table"], wx)

    def feature(self, f, exp, R):
        self.check(f is not None, "feature-found", "feature", f, exp["name"])
        if f is None:
            return
        self.tags(f, exp["tags"], "feature")
        self.common(f, exp, "feature", aliases=R.aliases("feature"))
        self.check(f.language == exp["language"], "language", "feature", f.language, exp["language"])
        self.background(f.background, exp["bg"], "feature", R.aliases("background"))
        self.items(f, exp["items"], "feature", R)


def h_tree(sx):
    import logging
    logging.disable(logging.CRITICAL)
    from behave import parser
    p = sx.params
    tree = gtree.TREES[p["tree"]]
    lang = p.get("lang", "en")
    R = gtree.Renderer(lang=lang, fillers=p.get("fillers", 0), max_alias=p.get("max_alias", 3), header=(lang != "en" or p.get("header", False)))
    exp = R.feature(tree)
    win = p.get("window")
    lines = [sx.choice("L%03d" % i, l.variants) if len(l.variants) > 1 and (win is None or win[0] <= i < win[1]) else l.variants[0]
             for i, l in enumerate(R.lines)]
    text = gherkin.make_text(sx, lines)

    def doc(m):
        return [sx.eval(l, m) if m is not None else l for l in lines]
    try:
        f = parser.parse_feature(text, filename="t.feature")
    except parser.ParserError as e:
        sx.check(False, "C04.well-formed-document-parses", detail=lambda m: {"error": str(e)[:300], "doc": doc(m)})
        return ["ParserError", e.line]
    Cmp(sx, doc).feature(f, exp, R)
    return ["ok", len(lines)]


def h_sub(sx):
    """Other entry points on sub-documents of the same trees: parse_steps / parse_scenario / parse_tags."""
    import logging
    logging.disable(logging.CRITICAL)
    from behave import parser
    p = sx.params
    tree = gtree.TREES[p["tree"]]
    lang = p.get("lang", "en")
    sc = [it for it in tree["items"] if it["k"] in ("s", "o")][p.get("index", 0)]
    entry = p["entry"]
    R = gtree.Renderer(lang=lang, max_alias=p.get("max_alias", 3))
    if entry == "steps":
        exp, _ = R.steps(sc["steps"], None)
    elif entry == "scenario":
        exp = R.items([dict(sc, k="s", tags=sc.get("tags"))], None)[0]
    elif entry == "rule":
        rule = [it for it in tree["items"] if it["k"] == "r"][0]
        exp = R.items([rule], None)[0]
    else:
        flat = R.taglines(p["tags"])
    lines = [sx.choice("L%03d" % i, l.variants) if len(l.variants) > 1 else l.variants[0] for i, l in enumerate(R.lines)]

    def doc(m):
        return [sx.eval(l, m) if m is not None else l for l in lines]
    c = Cmp(sx, doc)
    L = None if lang == "en" else lang
    try:
        if entry == "steps" and p.get("via_feature_parser"):
            # the parser object kept by a parsed feature (as Context.execute_steps uses it): the language of the
            # "# language:" header is still in force for a later parse_steps() on it
            from behave import i18n
            kw = i18n.languages[lang]["feature"][0]
            feat = parser.parse_feature(u"# language: %s\n%s: reuse\n" % (lang, kw), filename="r.feature")
            got = feat.parser.parse_steps(gherkin.make_text(sx, lines))
            c.steps(list(got), exp, "feature.parser.parse_steps")
        elif entry == "steps":
            got = parser.parse_steps(gherkin.make_text(sx, lines), language=L)
            c.steps(list(got), exp, "parse_steps")
        elif entry == "scenario":
            got = parser.parse_scenario(gherkin.make_text(sx, lines), language=L)
            c.tags(got, exp["tags"], "parse_scenario")
            c.common(got, exp, "parse_scenario", aliases=R.aliases("scenario"))
            c.steps(list(got.steps), exp["steps"], "parse_scenario")
        elif entry == "rule":
            import behave.model as model
            got = parser.parse_rule(gherkin.make_text(sx, lines), language=L)
            c.check(isinstance(got, model.Rule), "structure-order", "parse_rule", type(got).__name__, "Rule")
            if isinstance(got, model.Rule):
                c.common(got, exp, "parse_rule", aliases=R.aliases("rule"))
                c.items(got, exp["items"], "parse_rule", R)
        else:
            got = parser.parse_tags(lines[0])
            c.check(len(got) == len(flat), "tags", "parse_tags", [str(t) for t in got], flat)
            for g, e in zip(got, flat):
                c.check(eq(g, e), "tags", "parse_tags", g, e)
    except parser.ParserError as e:
        # known finding C04-F14: the parse_rule() entry point cannot parse a rule text (no feature context)
        sx.check(False, "C04.well-formed-document-parses", detail=lambda m: {"entry": entry, "error": str(e)[:300], "doc": doc(m)},
                 known=[("C04-F14", entry == "rule")])
        return ["ParserError", e.line]
    return ["ok", len(lines)]


REACH = ["C04.name", "C04.line-number", "C04.step-type", "C04.tags", "C04.keyword-alias"]


def nlines(tree, **kw):
    R = gtree.Renderer(**kw)
    R.feature(gtree.TREES[tree])
    return len(R.lines)


def windows(n, size, stride):
    return [[a, min(n, a + size)] for a in range(0, max(1, n - size + stride), stride)]


def jobs(tier, seed):
    from behave import i18n
    js = []
    rnd = random.Random(40 + seed)
    langs_all = sorted(l for l in i18n.languages if l != "en")
    W, STRIDE = (3, 3) if tier == "quick" else (4, 2)
    ma = 3 if tier == "quick" else 0
    for t in gtree.TREES:
        for fillers in ((0, 1) if tier == "quick" else (0, 1, 2)):
            hdr = fillers == 1
            n = nlines(t, fillers=fillers, max_alias=ma, header=hdr)
            for w in windows(n, W, STRIDE):
                js.append(Job("tree.%s.f%d.w%03d" % (t, fillers, w[0]), "props.c04:h_tree",
                              {"tree": t, "fillers": fillers, "max_alias": ma, "header": hdr, "window": w},
                              reach=REACH[:2], min_paths=1, cost=100, validate=10, closure=False))
    some = rnd.sample(langs_all, 4 if tier == "quick" else 12)
    # always: languages whose step keywords have no trailing blank (zh-CN: all of them, fr: the apostrophe forms), on a
    # tree with one-word step texts
    fixed = ["zh-CN", "fr"]
    for lang in ((some + [l for l in fixed if l not in some]) if tier == "quick" else langs_all):
        for t in (gtree.TREES if lang in some else ["bg-rule"] if lang in fixed else ["basic"]):
            try:
                n = nlines(t, lang=lang, max_alias=ma, header=True)
            except ValueError:
                continue
            for w in windows(n, W * 2, W * 2):
                js.append(Job("lang.%s.%s.w%03d" % (lang, t, w[0]), "props.c04:h_tree",
                              {"tree": t, "lang": lang, "max_alias": ma, "window": w},
                              reach=REACH[:2], min_paths=1, cost=100, validate=6, closure=False))
    for t, idx in (("basic", 0), ("basic", 1), ("outline", 0), ("outline", 1)):
        js.append(Job("steps.%s.%d" % (t, idx), "props.c04:h_sub", {"tree": t, "index": idx, "entry": "steps"},
                      reach=["C04.step-type", "C04.step-name"], min_paths=1, cost=20, validate=20, closure=False))
    for lg in ("fr", "de"):
        js.append(Job("steps-reuse.%s" % lg, "props.c04:h_sub", {"tree": "basic", "index": 0, "entry": "steps", "lang": lg, "via_feature_parser": True},
                      reach=["C04.step-type", "C04.step-name"], min_paths=1, cost=20, validate=20, closure=False))
    js.append(Job("scenario.basic", "props.c04:h_sub", {"tree": "basic", "index": 0, "entry": "scenario"},
                  reach=["C04.step-type", "C04.name"], min_paths=1, cost=20, validate=20, closure=False))
    js.append(Job("rule.mixed", "props.c04:h_sub", {"tree": "mixed", "entry": "rule"},
                  reach=["C04.well-formed-document-parses"], min_paths=1, cost=20, validate=20, closure=False))
    js.append(Job("tags", "props.c04:h_sub", {"tree": "basic", "entry": "tags", "tags": ["a", "b.c", "x=1"]},
                  reach=["C04.tags"], min_paths=1, cost=5, validate=20, closure=False))
    return js
