"""C20 - configuration precedence: command line over config file over defaults; userdata."""
import logging
import os
import shutil
import tempfile

import symx
from symx import SymChoice, lift_call
from vlib.runner import Job

CALL_PROFILE = ["behave.userdata"]

META = {
    "functions": ["behave.userdata.parse_user_define/unqote/parse_bool", "behave.userdata.UserData.getas/getint/getfloat/getbool, UserDataNamespace.*",
                  "behave.configuration.Configuration.__init__/make_defaults/setup_userdata/setup_outputs/setup_reporters/setup_formats",
                  "behave.configuration.load_configuration/config_filenames/read_configuration/read_configparser/read_toml_config/"
                  "configfile_options_iter/format_outfiles_coupling/setup_parser", "behave.configuration.OPTIONS (table read live)"],
    "bounds": {"quick": "-D texts: one symbolic choice over the grammar-generated pool (padding x outer quote x name x '=' spacing x value quote x value, "
                        "~2600 strings) against the documented parse; getters over 14 values x {present, missing}; precedence: every flag / choice / "
                        "scalar option of the live OPTIONS table individually with symbolic presence in the ini (and pyproject.toml) file and on "
                        "the command line (negated twin symbolic), 6 seeded triples of options jointly, append options order, paths/outfiles in a "
                        "config file in another directory, -D over file userdata; config files in $HOME and the working directory at once (every option, presence in each file symbolic)",
               "thorough": "20 seeded triples, toml for all options"},
    "outside": ["the inside of argparse/configparser/tomllib (stdlib, run concretely)", "options with derived side effects are asserted only through "
                "their documented couplings (wip, steps_catalog, quiet, junit->capture)"],
    "assumptions": ["config files are written into a scratch cwd and a scratch $HOME (the two places behave looks)"],
    "leverage": "userdata: finite alphabet merged by the code's predicates; precedence: presence flags enumerated by the solver, exhaustive path exploration "
                "rather than symbolic reasoning (labelled so)",
}

# ---------------------------------------------------------------------------------------------
# userdata kernel
# ---------------------------------------------------------------------------------------------
PAD = ["", " ", "   "]
OQ = ["", '"', "'"]
NAMES = ["foo", "a.b_c"]
SEP = ["=", " = ", "= ", " ="]
VQ = ["", '"', "'"]
VALUES = ["bar", "1", "a=b", " x ", "", "yes and no", "it's"]


def define_pool():
    pool = []
    for pl in PAD:
        for oq in OQ:
            for name in NAMES:
                for sep in SEP:
                    for vq in VQ:
                        for val in VALUES:
                            if vq and vq in val:
                                continue
                            if oq and (oq in val or oq == vq):
                                continue
                            if not vq and (val.strip() != val and sep.endswith(" ") is False and False):
                                continue
                            text = pl + oq + name + sep + vq + val + vq + oq + pl
                            exp_val = val if vq else val.strip()
                            if not vq and not oq and exp_val[:1] in "\"'" and exp_val[-1:] == exp_val[:1] and len(exp_val) > 1:
                                continue
                            pool.append((text, name, exp_val))
    for pl in PAD:
        for name in NAMES:
            pool.append((pl + name + pl, name, "true"))
    # only the SURROUNDING pair of quotes is stripped: quote characters that belong to the value stay
    n0 = NAMES[0]
    pool += [(n0 + '="say "hi""', n0, 'say "hi"'), (n0 + '=""a""', n0, '"a"'), (n0 + "='it's''", n0, "it's'"),
             ('"' + n0 + '=keep "calm""', n0, 'keep "calm"')]
    return pool


def h_define(sx):
    from behave.userdata import parse_user_define
    pool = define_pool()
    c = sx.choice("define", pool)
    text = lift_call(lambda t: t[0], (c,), {})
    exp = lift_call(lambda t: (t[1], t[2]), (c,), {})
    got = parse_user_define(text)
    got_t = lift_call(lambda a, b: (a, b), (got[0], got[1]), {}) if isinstance(got, tuple) else got
    sx.check(lift_call(lambda g, e: g == e, (got_t, exp), {}), "C20.define-parsed-as-documented",
             detail=lambda m: {"text": sx.eval(text, m) if m is not None else text,
                               "got": [sx.eval(x, m) if (m is not None and isinstance(x, SymChoice)) else x for x in (got if isinstance(got, tuple) else [got])],
                               "expected": sx.eval(exp, m) if m is not None else exp})
    return "ok"


GETVALS = ["1", " 2 ", "0x10", "abc", "", "1.5", "yes", "True", "off", "2", "-3", "1e3", "no ", "maybe"]


def h_getters(sx):
    from behave.userdata import UserData, UserDataNamespace
    v = sx.choice("value", GETVALS)
    v = v if isinstance(v, str) else v.concretize()
    present = sx.bool("present")
    scoped = sx.bool("scoped")
    data = UserData()
    key = "my.ns.k" if scoped else "k"
    if present:
        data[key] = v
    view = UserDataNamespace("my.ns", data) if scoped else data
    name = "k"

    def expect(conv, default):
        if not present:
            return ("value", default)
        try:
            return ("value", conv(v))
        except ValueError:
            return ("ValueError", None)

    def pb(t):
        t2 = t.lower().strip()
        if t2 in ("yes", "true", "on", "1"):
            return True
        if t2 in ("no", "false", "off", "0"):
            return False
        raise ValueError(t)
    # the getters are called one after the other on the SAME object, in a symbolic order: the result of each depends on
    # the stored text only, never on which getters were called before
    getters = [("getint", int, 7), ("getfloat", float, 2.5), ("getbool", pb, True)]
    order = sx.choice("order", [0, 1, 2, 3, 4, 5])
    order = order if isinstance(order, int) else order.concretize()
    import itertools
    called = []
    for getter, conv, default in list(itertools.permutations(getters))[order]:
        try:
            got = ("value", getattr(view, getter)(name, default))
        except ValueError:
            got = ("ValueError", None)
        except Exception as e:       # noqa - any other exception class is a violation, not a harness error
            got = (type(e).__name__, None)
        exp = expect(conv, default)
        called.append(getter)
        sx.check(got == exp and (got[0] != "value" or type(got[1]) is type(exp[1])), "C20.getter-%s" % getter,
                 detail={"value": v, "present": bool(present), "got": repr(got), "expected": repr(exp), "called_so_far": list(called)})
        if present:
            sx.check(data[key] == v and type(data[key]) is type(v), "C20.getter-leaves-stored-text-alone",
                     detail={"value": v, "stored": repr(data[key]), "called_so_far": list(called)})
    return [v, bool(present)]


# ---------------------------------------------------------------------------------------------
# precedence
# ---------------------------------------------------------------------------------------------
SKIP_DESTS = {"wip", "steps_catalog", "quiet", "userdata_defines", "format", "outfiles", "paths", "tags", "default_tags", "name",
              "version", "tags_help", "lang_list", "lang_help", "runner", "stage", "verbose", "color", "junit"}
SCALAR_VALUES = {
    "junit_directory": ["rep1", "out/rep2"], "jobs": ["2", "5"], "logging_level": ["DEBUG", "ERROR"], "logging_format": ["%(message)s", "L:%(name)s"],
    "logging_datefmt": ["%H:%M", "%Y"], "logging_filter": ["foo", "bar2"], "lang": ["de", "fr"], "include_re": ["abc", "x.*"], "exclude_re": ["zz", "y+"],
    "default_format": ["plain", "progress"], "scenario_outline_annotation_schema": ["{name} X", "{name} -- {row.id}"],
    "tag_expression_protocol": ["v1", "v2"],
}


def option_model():
    from behave.configuration import OPTIONS, derive_dest_from_long_option
    by = {}
    for fixed, kw in OPTIONS:
        action = kw.get("action", "store")
        dest = kw.get("dest") or derive_dest_from_long_option(fixed)
        d = by.setdefault(dest, {"dest": dest, "pos": None, "neg": None, "kind": None, "type": None, "choices": None, "cmdline": None})
        longs = [w for w in fixed if w.startswith("--")]
        if action == "store_true":
            d["kind"] = "flag"
            d["pos"] = longs[0] if longs else None
        elif action == "store_false":
            d["neg"] = longs[0] if longs else None
            d["kind"] = d["kind"] or "flag"
        elif action == "store" and kw.get("nargs") is None:
            d["kind"] = "scalar"
            d["cmdline"] = longs[0] if longs else None
            d["type"] = kw.get("type")
            d["choices"] = kw.get("choices")
    return [d for d in by.values() if d["kind"] in ("flag", "scalar") and d["dest"] not in SKIP_DESTS and
            (d["kind"] == "flag" or d["dest"] in SCALAR_VALUES)]


def _norm(dest, v):
    if dest == "logging_level" and isinstance(v, str):
        return getattr(logging, v)
    if dest == "jobs" and isinstance(v, str):
        return int(v)
    if dest in ("include_re", "exclude_re") and v is not None and not isinstance(v, str):
        return v.pattern
    if dest == "tag_expression_protocol":
        return getattr(v, "name", str(v)).lower()
    return v


_PRISTINE = {}


def _fresh_class_state():
    """Every path starts from the class-level state of a fresh interpreter (a no-op unless some code mutates
    Configuration.defaults in place - which the history check below is there to detect)."""
    import copy
    from behave.configuration import Configuration
    if "defaults" not in _PRISTINE:
        _PRISTINE["defaults"] = copy.deepcopy(Configuration.defaults)
    elif Configuration.defaults != _PRISTINE["defaults"]:
        Configuration.defaults.clear()
        Configuration.defaults.update(copy.deepcopy(_PRISTINE["defaults"]))


def _build(tmp, home, file_lines, args, toml=False, in_home=False):
    from behave.configuration import Configuration
    base = home if in_home else tmp
    if file_lines is not None:
        if toml:
            with open(os.path.join(base, "pyproject.toml"), "w") as f:
                f.write("[tool.behave]\n" + "\n".join(file_lines) + "\n")
        else:
            with open(os.path.join(base, "behave.ini"), "w") as f:
                f.write("[behave]\n" + "\n".join(file_lines) + "\n")
    cwd = os.getcwd()
    old_home = os.environ.get("HOME")
    try:
        os.chdir(tmp)
        os.environ["HOME"] = home
        return Configuration(list(args))
    finally:
        os.chdir(cwd)
        if old_home is None:
            os.environ.pop("HOME", None)
        else:
            os.environ["HOME"] = old_home
        for fn in ("behave.ini", "pyproject.toml"):
            try:
                os.remove(os.path.join(base, fn))
            except OSError:
                pass


def _setting(sx, opt, idx, toml):
    """Symbolic presence of one option in file / on the command line; returns (file lines, args, expected or None=default)."""
    dest = opt["dest"]
    in_file = sx.bool("in_file:%d" % idx)
    on_cmd = sx.bool("on_cmdline:%d" % idx) if (opt["pos"] or opt["neg"] or opt["cmdline"]) else False
    lines, args, exp = [], [], None
    if opt["kind"] == "flag":
        fval = sx.bool("file_value:%d" % idx)
        if in_file:
            lines.append("%s = %s" % (dest, ("true" if fval else "false")))
            exp = bool(fval)
        if on_cmd:
            neg = sx.bool("negated:%d" % idx) if (opt["neg"] and opt["pos"]) else bool(opt["neg"] and not opt["pos"])
            args.append(opt["neg"] if neg else opt["pos"])
            exp = not neg
    else:
        vals = SCALAR_VALUES[dest]
        if in_file:
            lines.append(("%s = \"%s\"" if toml else "%s = %s") % (dest, vals[0].replace("%", "%%") if (not toml and dest not in ("logging_format", "logging_datefmt")) else vals[0]))
            exp = vals[0]
        if on_cmd:
            args.extend([opt["cmdline"], vals[1]])
            exp = vals[1]
    return lines, args, exp


def _snapshot(cfg, dests):
    return {d: _norm(d, getattr(cfg, d, None)) for d in dests}


def h_precedence(sx):
    opts = option_model()
    dests = [o["dest"] for o in opts]
    p = sx.params
    toml = bool(p.get("toml"))
    tmp = tempfile.mkdtemp(prefix="c20-")
    home = tempfile.mkdtemp(prefix="c20h-")
    try:
        if p.get("indices"):
            chosen = [opts[i % len(opts)] for i in p["indices"]]
        else:
            k = sx.choice("option", list(range(len(opts))))
            chosen = [opts[k if isinstance(k, int) else k.concretize()]]
        lines, args, exps = [], [], {}
        for i, o in enumerate(chosen):
            l, a, e = _setting(sx, o, i, toml)
            lines += l
            args += a
            exps[o["dest"]] = e
        if args and args[0].startswith("-") and sx.bool("bare_color_first"):
            # a value-less --color directly in front of the other options must not swallow them
            args = ["--color"] + args
        _fresh_class_state()
        base = _snapshot(_build(tmp, home, None, []), dests)
        try:
            cfg = _build(tmp, home, lines if lines else None, args, toml=toml)
        except SystemExit as e:
            sx.check(False, "C20.configuration-accepted", detail={"file": lines, "args": args, "exit": repr(e)})
            return {"file": lines, "args": args, "exit": True}
        got = _snapshot(cfg, dests)
        det = {"file": lines, "args": args, "toml": toml}
        for o in chosen:
            d = o["dest"]
            want = _norm(d, exps[d]) if exps[d] is not None else base[d]
            sx.check(got[d] == want, "C20.cmdline>file>default", detail=dict(det, dest=d, got=repr(got[d]), expected=repr(want), default=repr(base[d])))
        touched = {o["dest"] for o in chosen}
        for d in dests:
            if d not in touched:
                sx.check(got[d] == base[d], "C20.untouched-options-keep-defaults", detail=dict(det, dest=d, got=repr(got[d]), default=repr(base[d])))
        # history: a configuration built AFTER this one, with nothing mentioned anywhere, has the built-in defaults again
        later = _build(tmp, home, None, [])
        after = _snapshot(later, dests)
        for d in dests:
            sx.check(after[d] == base[d], "C20.defaults-unaffected-by-earlier-configuration",
                     detail=dict(det, dest=d, later=repr(after[d]), default=repr(base[d])))
        sx.check(dict(later.userdata) == {}, "C20.userdata-unaffected-by-earlier-configuration", detail=dict(det, userdata=repr(dict(later.userdata))))
        return {"file": lines, "args": args, "values": {d: repr(got[d]) for d in sorted(touched)}}
    finally:
        shutil.rmtree(tmp, ignore_errors=True)
        shutil.rmtree(home, ignore_errors=True)


def h_two_files(sx):
    """Config files at two depths at once: the documented search order is 1. current working directory, 2. $HOME -
    a per-project file wins over the personal one, which wins over the built-in default; command line wins over both."""
    from behave.configuration import Configuration
    opts = option_model()
    dests = [o["dest"] for o in opts]
    tmp = tempfile.mkdtemp(prefix="c20-")
    home = tempfile.mkdtemp(prefix="c20h-")
    cwd = os.getcwd()
    old_home = os.environ.get("HOME")
    try:
        k = sx.choice("option", list(range(len(opts))))
        o = opts[k if isinstance(k, int) else k.concretize()]
        d = o["dest"]
        in_proj, in_home = sx.bool("in_project_file"), sx.bool("in_home_file")
        home_name = ".behaverc" if sx.bool("home_file_is_behaverc") else "behave.ini"
        exp = None
        vals = SCALAR_VALUES.get(d)
        esc = lambda v: v.replace("%", "%%") if d not in ("logging_format", "logging_datefmt") else v
        if in_home:
            hv = sx.bool("home_value") if o["kind"] == "flag" else None
            with open(os.path.join(home, home_name), "w") as f:
                f.write("[behave]\n%s = %s\n[behave.userdata]\nwho = personal\n" % (d, ("true" if hv else "false") if o["kind"] == "flag" else esc(vals[1])))
            exp = bool(hv) if o["kind"] == "flag" else vals[1]
        if in_proj:
            pv = sx.bool("project_value") if o["kind"] == "flag" else None
            with open(os.path.join(tmp, "behave.ini"), "w") as f:
                f.write("[behave]\n%s = %s\n[behave.userdata]\nwho = project\n" % (d, ("true" if pv else "false") if o["kind"] == "flag" else esc(vals[0])))
            exp = bool(pv) if o["kind"] == "flag" else vals[0]
        _fresh_class_state()
        os.chdir(tmp)
        os.environ["HOME"] = home
        try:
            cfg = Configuration([])
        except SystemExit as e:
            sx.check(False, "C20.configuration-accepted", detail={"dest": d, "exit": repr(e)})
            return {"dest": d, "exit": True}
        os.chdir(cwd)
        shutil.rmtree(tmp, ignore_errors=True)
        shutil.rmtree(home, ignore_errors=True)
        tmp2, home2 = tempfile.mkdtemp(prefix="c20-"), tempfile.mkdtemp(prefix="c20h-")
        try:
            base = _snapshot(_build(tmp2, home2, None, []), dests)
        finally:
            shutil.rmtree(tmp2, ignore_errors=True)
            shutil.rmtree(home2, ignore_errors=True)
        got = _snapshot(cfg, dests)
        want = _norm(d, exp) if exp is not None else base[d]
        det = {"dest": d, "in_project_file": bool(in_proj), "in_home_file": bool(in_home), "home_file": home_name}
        sx.check(got[d] == want, "C20.project-file>home-file>default", detail=dict(det, got=repr(got[d]), expected=repr(want), default=repr(base[d])))
        who = "project" if in_proj else "personal" if in_home else None
        sx.check(cfg.userdata.get("who") == who, "C20.project-file>home-file>default",
                 detail=dict(det, userdata=repr(dict(cfg.userdata)), expected_who=who))
        for x in dests:
            if x != d:
                sx.check(got[x] == base[x], "C20.untouched-options-keep-defaults", detail=dict(det, other=x, got=repr(got[x]), default=repr(base[x])))
        return {"dest": d, "value": repr(got[d]), "who": cfg.userdata.get("who")}
    finally:
        os.chdir(cwd)
        if old_home is None:
            os.environ.pop("HOME", None)
        else:
            os.environ["HOME"] = old_home
        shutil.rmtree(tmp, ignore_errors=True)
        shutil.rmtree(home, ignore_errors=True)


def h_lists_paths_userdata(sx):
    """append options keep file order (+ cmdline values present); paths/outfiles relative to the config file; -D over file userdata;
    junit forces capture."""
    tmp = tempfile.mkdtemp(prefix="c20-")
    home = tempfile.mkdtemp(prefix="c20h-")
    try:
        in_home = sx.bool("config_in_home")
        toml = sx.bool("toml")
        cmd_tags = sx.bool("cmd_tags")
        cmd_define = sx.bool("cmd_define")
        junit = sx.bool("junit")
        nocapture = sx.bool("no_capture")
        # outfiles: "-" (stdout) for the first formatter, a file for the second.  (Only with the config file in the working
        # directory: from another directory behave resolves "-" like a relative path, "<dir>/-"; whether "-" in a config
        # file means stdout is not part of the statement.)
        stdout_first = sx.bool("stdout_outfile_first") if not in_home else False
        if toml:
            lines = ['paths = ["features/a", "features/b"]', 'format = ["plain", "progress"]',
                     'outfiles = ["-", "o1.txt"]' if stdout_first else 'outfiles = ["o1.txt"]', 'name = ["n1", "n2", "n3"]',
                     'tags = ["@x", "@y"]', "[tool.behave.userdata]", 'foo = "file"', 'keep = "k"', 'MixedCase = "V"', 'UPPER_NAME = "u"',
                     "ratio = 2.5", "count = 3",        # (numbers written as TOML numbers: user data is text all the same)
                     '"behave.reporter.junit.show_hostname" = "false"']
        else:
            lines = ["paths = features/a\n  features/b", "format = plain\n  progress", "outfiles = -\n  o1.txt" if stdout_first else "outfiles = o1.txt", "name = n1\n  n2\n  n3",
                     "tags = @x\n  @y", "[behave.userdata]", "foo = file", "keep = k", "MixedCase = V", "UPPER_NAME = u", "ratio = 2.5", "count = 3",
                     "behave.reporter.junit.show_hostname = false"]
        with_default_tags = bool(sx.bool("file_default_tags"))
        if with_default_tags:
            # default_tags is the fallback for "no tags given anywhere": the file's own tags (and the command line) win over it
            k_ = [i for i, l in enumerate(lines) if l.startswith("tags")][0]
            lines.insert(k_ if sx.bool("default_tags_first") else k_ + 1, 'default_tags = ["@dflt"]' if toml else "default_tags = @dflt")
        no_format = (not stdout_first) and bool(sx.bool("outfiles_without_format"))
        if no_format:
            # the configuration file names an output file but no formatter (that comes from -f or the default)
            lines = [l for l in lines if not l.startswith("format")]
        args = []
        if cmd_tags:
            args += ["--tags", "@cmd"]
        if cmd_define:
            args += ["-D", "foo=cmd", "-D", "new", "-D", "UPPER_NAME=cmd", "-D", "behave.reporter.junit.show_hostname=true"]
        if junit:
            args += ["--junit"]
        if nocapture:
            args += ["--no-capture", "--no-capture-stderr", "--no-logcapture"]
        _fresh_class_state()
        cfg = _build(tmp, home, lines, args, toml=bool(toml), in_home=bool(in_home))
        base = os.path.realpath(home if in_home else tmp)
        det = {"in_home": bool(in_home), "toml": bool(toml), "args": args, "stdout_outfile_first": bool(stdout_first)}
        rp = lambda x: os.path.realpath(x if os.path.isabs(x) else os.path.join(tmp, x))
        sx.check([rp(x) for x in cfg.paths] == [os.path.join(base, "features/a"), os.path.join(base, "features/b")], "C20.file-paths-relative-to-config-file",
                 detail=dict(det, got=cfg.paths, base=base))
        if stdout_first:
            # formatters and outfiles are paired by position: plain -> stdout, progress -> o1.txt
            outs = [rp(o.name) if o.name else None for o in cfg.outputs]
            sx.check(outs[:2] == [None, os.path.join(base, "o1.txt")], "C20.format-outfiles-paired-by-position",
                     detail=dict(det, got=outs, base=base))
        elif no_format:
            outs = [rp(o.name) for o in cfg.outputs if o.name]
            sx.check(outs == [os.path.join(base, "o1.txt")], "C20.file-outfiles-relative-to-config-file",
                     detail=dict(det, got=outs, base=base, outfiles_without_format=True))
        else:
            outs = [rp(o.name) for o in cfg.outputs if o.name]
            sx.check(outs[:2] == [os.path.join(base, "o1.txt"), os.path.join(base, "progress.output")], "C20.file-outfiles-relative-to-config-file",
                     detail=dict(det, got=outs, base=base))
        if not no_format:
            sx.check(cfg.format[:2] == ["plain", "progress"], "C20.file-list-order-kept", detail=dict(det, got=cfg.format))
        sx.check(cfg.name == ["n1", "n2", "n3"], "C20.file-list-order-kept", detail=dict(det, got=cfg.name))
        if cmd_tags:
            sx.check(cfg.tags == ["@cmd"], "C20.cmdline-tags-win", detail=dict(det, got=cfg.tags))
        else:
            sx.check(list(cfg.config_tags or []) == ["@x", "@y"], "C20.file-list-order-kept", detail=dict(det, got=cfg.config_tags))
            sx.check(list(cfg.tags or []) == ["@x", "@y"], "C20.file-tags-win-over-default-tags",
                     detail=dict(det, got=cfg.tags, default_tags_in_file=with_default_tags))
        sx.check(cfg.userdata.get("keep") == "k", "C20.file-userdata-kept", detail=dict(det, got=dict(cfg.userdata)))
        if junit:
            # user data that configures a reporter: the reporter sees the command-line definition, too
            from behave.reporter.junit import JUnitReporter
            reps_ = [r for r in cfg.reporters if isinstance(r, JUnitReporter)]
            sx.check(len(reps_) == 1 and bool(reps_[0].show_hostname) == bool(cmd_define), "C20.define-overrides-file-userdata",
                     detail=dict(det, junit_show_hostname=[getattr(r, "show_hostname", None) for r in reps_], expected=bool(cmd_define)))
        # values are text whatever the file format; the typed getters convert (or refuse)
        sx.check(cfg.userdata.get("ratio") == "2.5" and cfg.userdata.get("count") == "3", "C20.file-userdata-kept",
                 detail=dict(det, ratio=repr(cfg.userdata.get("ratio")), count=repr(cfg.userdata.get("count"))))
        try:
            r_ = ("value", cfg.userdata.getint("ratio"))
        except ValueError:
            r_ = ("ValueError",)
        sx.check(r_ == ("ValueError",) and cfg.userdata.getfloat("ratio") == 2.5 and cfg.userdata.getint("count") == 3, "C20.getter-on-file-userdata",
                 detail=dict(det, getint_ratio=repr(r_)))
        # names are case-sensitive and kept as written in the file
        sx.check(cfg.userdata.get("MixedCase") == "V" and "mixedcase" not in cfg.userdata, "C20.file-userdata-kept", detail=dict(det, got=dict(cfg.userdata)))
        sx.check(cfg.userdata.get("UPPER_NAME") == ("cmd" if cmd_define else "u") and "upper_name" not in cfg.userdata,
                 "C20.define-overrides-file-userdata", detail=dict(det, got=dict(cfg.userdata)))
        sx.check(cfg.userdata.get("foo") == ("cmd" if cmd_define else "file"), "C20.define-overrides-file-userdata", detail=dict(det, got=dict(cfg.userdata)))
        if cmd_define:
            sx.check(cfg.userdata.get("new") == "true", "C20.bare-define-means-true", detail=dict(det, got=dict(cfg.userdata)))
        if junit:
            sx.check(cfg.stdout_capture and cfg.stderr_capture and cfg.log_capture, "C20.junit-forces-capture", detail=det)
        elif nocapture:
            sx.check(not (cfg.stdout_capture or cfg.stderr_capture or cfg.log_capture), "C20.cmdline>file>default", detail=det)
        # history: the next configuration (another project, no config file, no arguments) sees none of it
        later = _build(tmp, home, None, [])
        sx.check(dict(later.userdata) == {} and not later.config_tags and not later.name and list(later.format or []) == [],
                 "C20.userdata-unaffected-by-earlier-configuration",
                 detail=dict(det, userdata=repr(dict(later.userdata)), tags=repr(later.config_tags), name=repr(later.name), format=repr(later.format)))
        return {"paths": [os.path.relpath(x, base) for x in cfg.paths], "userdata": dict(cfg.userdata)}
    finally:
        shutil.rmtree(tmp, ignore_errors=True)
        shutil.rmtree(home, ignore_errors=True)


def jobs(tier, seed):
    import random
    js = []
    js.append(Job("define", "props.c20:h_define", {}, reach=["C20.define-parsed-as-documented"], min_paths=5, cost=100, validate=150, closure=False))
    js.append(Job("getters", "props.c20:h_getters", {}, reach=["C20.getter-getint", "C20.getter-getbool"], min_paths=20, cost=50, validate="all", closure=False))
    for toml in (False, True):
        js.append(Job("precedence.single.%s" % ("toml" if toml else "ini"), "props.c20:h_precedence", {"toml": toml},
                      reach=["C20.cmdline>file>default", "C20.untouched-options-keep-defaults"], min_paths=50, cost=1000, validate=30, closure=False))
    rnd = random.Random(77 + seed)
    for t in range(6 if tier == "quick" else 20):
        idx = rnd.sample(range(len(option_model())), 3)
        js.append(Job("precedence.triple.%02d" % t, "props.c20:h_precedence", {"indices": idx, "toml": t % 3 == 2},
                      reach=["C20.cmdline>file>default"], min_paths=8, cost=300, validate=20, closure=False))
    js.append(Job("two-files", "props.c20:h_two_files", {}, reach=["C20.project-file>home-file>default"], min_paths=50, cost=1000, validate=30, closure=False))
    js.append(Job("lists-paths-userdata", "props.c20:h_lists_paths_userdata", {}, reach=["C20.file-paths-relative-to-config-file",
                  "C20.define-overrides-file-userdata", "C20.file-list-order-kept"], min_paths=16, cost=300, validate=30, closure=False))
    return js
