"""C05 - parser error discipline: only ParserError, with a usable line number."""
from vlib.runner import Job
from symx import lift_call
from vlib import gherkin

CALL_PROFILE = ["behave.parser"]

META = {
    "functions": ["behave.parser.Parser.action/action_initial/action_feature/action_rule/action_background/action_scenario/action_steps/"
                  "action_multiline_text/action_table/action_taggable_statement/subaction_detect_taggable_statement/parse_step/parse_tags/"
                  "match_keyword/_build_*/ask_parse_failure_oracle/_parse_loop", "behave.parser.parse_feature/parse_rule/parse_scenario/parse_steps/parse_tags",
                  "behave.model constructors (Feature, Rule, Background, Scenario, ScenarioOutline, Examples, Step, Table, Row, Tag, Text)"],
    "bounds": {"quick": "documents of K<=2 lines over the full line alphabet (|Sigma| ~ 250 for en incl. hostile lines; generated from the live "
                        "keyword table) and K=3 over the reduced alphabet (one representative per line kind, ~30 lines), entry points "
                        "feature/rule/scenario/steps and tags (1 line); languages en + 2 seeded; fault injection: catalogued fault kinds at "
                        "every position of valid rendered documents",
               "thorough": "K<=3 full alphabet, K<=4 reduced alphabet (sharded by first line), 8 languages at K<=2, fault injection with filler lines"},
    "outside": ["characters outside the alphabet's names/cells (free-form character-level text is not symbolic)", "documents longer than K lines except through fault injection into rendered documents",
                "parse_file I/O errors"],
    "assumptions": ["a document is represented by an object whose splitlines() returns the symbolic lines (the parser uses nothing else of the text)"],
    "leverage": "finite alphabet merged by the parser's own predicates: |Sigma|^K documents are decided on a few thousand paths",
}

ENTRY = ["feature", "rule", "scenario", "steps"]


def _call(entry, text, lang=None):
    from behave import parser
    if entry == "feature":
        return parser.parse_feature(text, language=lang)
    if entry == "rule":
        return parser.parse_rule(text, language=lang)
    if entry == "scenario":
        return parser.parse_scenario(text, language=lang)
    if entry == "steps":
        return parser.parse_steps(text, language=lang)
    return parser.parse_tags(text)


def h_soup(sx):
    import logging
    logging.disable(logging.CRITICAL)
    from behave.parser import ParserError
    K = sx.params["k"]
    entry = sx.params["entry"]
    lang = sx.params.get("lang", "en")
    alphabet = gherkin.sigma(lang, hostile=True, small=bool(sx.params.get("small")))
    first = sx.params.get("first")          # optional shard: restrict the first line to a slice of the alphabet
    lines = []
    for i in range(K):
        pool = alphabet
        if i == 0 and first is not None:
            pool = alphabet[first[0]:first[1]]
        lines.append(sx.choice("line%d" % i, pool))
    if entry == "tags":
        text = lines[0]
    else:
        text = gherkin.make_text(sx, lines)

    def doc(m):
        return [sx.eval(l, m) if m is not None else l for l in lines]
    try:
        r = _call(entry, text, None if lang == "en" else lang)
        out = ["ok", type(r).__name__]
    except ParserError as e:
        line = e.line
        sx.check(isinstance(line, int) and 1 <= line <= K, "C05.error-line-inside-text",
                 detail=lambda m: {"entry": entry, "doc": doc(m), "line": line, "error": str(e)[:200]})
        out = ["ParserError", line]
    except Exception as e:      # noqa  (engine control exceptions derive from BaseException)
        et = type(e).__name__
        msg = str(e)[:120]
        sx.check(False, "C05.only-ParserError", detail=lambda m: {"entry": entry, "doc": doc(m), "exception": et, "message": msg})
        out = ["INTERNAL", et]
    return out


def jobs(tier, seed):
    js = []
    n = len(gherkin.sigma("en"))
    ns = len(gherkin.sigma("en", small=True))
    # full alphabet: K<=2 (quick) / K<=3 (thorough); reduced alphabet (one representative per line kind): K=3 / K=4,5
    plan = [(1, False), (2, False), (3, True)] if tier == "quick" else [(1, False), (2, False), (3, False), (4, True)]
    for entry in ENTRY:
        for k, small in plan:
            shards = [None]
            if k >= 3:
                size = ns if small else n
                step = {3: 3, 4: 2, 5: 1}[k] if small else 8
                shards = [[a, min(size, a + step)] for a in range(0, size, step)]
            for sh in shards:
                name = "soup.%s.k%d%s" % (entry, k, "s" if small else "") + ("" if sh is None else ".%03d" % sh[0])
                js.append(Job(name, "props.c05:h_soup", {"k": k, "entry": entry, "first": sh, "small": small},
                              reach=[], min_paths=1, cost=10 ** k, validate=20 if tier == "quick" else 40, closure=False,
                              max_paths=400000, budget_s=1500))
    js.append(Job("soup.tags", "props.c05:h_soup", {"k": 1, "entry": "tags"}, min_paths=3, cost=5, validate="all", closure=False))
    import random
    from behave import i18n
    rnd = random.Random(500 + seed)
    langs = sorted(l for l in i18n.languages if l != "en")
    for lang in rnd.sample(langs, 2 if tier == "quick" else 8):
        for entry in ("feature", "steps"):
            js.append(Job("soup.%s.%s.k2" % (lang, entry), "props.c05:h_soup", {"k": 2, "entry": entry, "lang": lang},
                          min_paths=3, cost=200, validate=30, closure=False))
    return js


# ---------------------------------------------------------------------------------------------
# claim 2: fault localisation - one grammar violation injected into a valid rendered document
# ---------------------------------------------------------------------------------------------
FAULTS = {
    "second-feature": ["Feature: again", "  Feature: again"],
    "free-text-after-steps": ["some free text", "   not a step at all"],
    "examples-outside-outline": ["Examples: stray", "  Examples:"],
    "and-without-predecessor": ["And orphan", "  But orphan"],
    "ragged-table-row": ["| 1 | 2 | 3 | 4 | 5 |", "  | 1 | 2 | 3 | 4 | 5 |"],
    "bad-tag-token": ["@ok bad-token", "  @ok bad", "@ok {slow}", "  @smoke {0} %s %(x)s", "@issue#17 slow", "  @fixed @bug#4 slow @smoke"],
    # inside a doc-string: a line indented less than the opening delimiter
    "underindented-docstring-line": ["text at column 0", " one blank only", '{"id": 1, "fmt": "%s {x}"}'],
}


def _contexts(rlines):
    """Per insertion index: context derived from the kinds of the preceding lines (oracle side)."""
    ctx = []
    in_doc = False
    prev = None
    stmt = None
    seen_feature = False
    in_rule = False
    fbg = rbg = 0           # steps seen so far in the feature background / in the current rule's own background
    for i in range(len(rlines) + 1):
        ctx.append({"in_doc": in_doc, "prev": prev, "stmt": stmt, "seen_feature": seen_feature, "in_rule": in_rule,
                    "feature_bg_steps": fbg, "rule_bg_steps": rbg})
        if i == len(rlines):
            break
        k = rlines[i].kind
        if k == "doc-open":
            in_doc = True
        elif k == "doc-close":
            in_doc = False
        if k in ("filler", "language"):
            continue
        if k in ("feature", "rule", "background", "scenario", "scenario_outline", "examples"):
            stmt = k if k != "examples" else stmt
            if k == "feature":
                seen_feature = True
            if k == "rule":
                in_rule = True
                rbg = 0
        if k == "step" and stmt == "background":
            if in_rule:
                rbg += 1
            else:
                fbg += 1
        prev = k
    return ctx


def _is_fault(kind, c, has_bg, feature_bg=True):
    if kind == "underindented-docstring-line":
        return c["in_doc"]
    if c["in_doc"]:
        return False
    prev, stmt = c["prev"], c["stmt"]
    if kind in ("second-feature", "free-text-after-steps"):
        return c["seen_feature"] and prev in ("step", "doc-close", "table-row", "examples")
    if kind == "examples-outside-outline":
        return c["seen_feature"] and stmt != "scenario_outline" and prev != "tags"
    if kind == "and-without-predecessor":
        # first step of a Background: nothing to inherit a step type from unless it is a rule's background below a
        # feature background (whose steps it inherits) - whatever the scenarios before it ended with
        if prev == "background":
            return (not c["in_rule"]) or c["feature_bg_steps"] == 0
        # first step of a scenario / outline: the type comes from the last step of the container's background (a rule's own
        # background steps, else the steps it inherits from the feature background); nothing there -> fault
        if prev in ("scenario", "scenario_outline"):
            return c["feature_bg_steps"] == 0 and (not c["in_rule"] or c["rule_bg_steps"] == 0)
        return False
    if kind == "ragged-table-row":
        return prev == "table-row"
    if kind == "bad-tag-token":
        return True
    return False


def h_inject(sx):
    import logging
    logging.disable(logging.CRITICAL)
    from behave import parser
    from vlib import gtree
    p = sx.params
    tree = gtree.TREES[p["tree"]]
    R = gtree.Renderer(fillers=p.get("fillers", 0))
    R.feature(tree)
    base = [l.variants[0] for l in R.lines]
    n = len(base)
    ctx = _contexts(R.lines)
    kind = p["fault"]
    pos = sx.int("pos", 0, n)
    idx = None
    for i in range(n + 1):
        if pos == i:
            idx = i
            break
    if not _is_fault(kind, ctx[idx], tree.get("bg") is not None or any(it.get("bg") for it in tree["items"] if it["k"] == "r"),
                     feature_bg=tree.get("bg") is not None):
        return ["n/a", idx]
    inj = sx.choice("inj", FAULTS[kind])
    lines = base[:idx] + [inj] + base[idx:]
    text = gherkin.make_text(sx, lines)

    def det(m):
        return {"fault": kind, "injected_at_line": idx + 1, "context": ctx[idx],
                "doc": [sx.eval(l, m) if m is not None else l for l in lines]}
    try:
        parser.parse_feature(text, filename="inj.feature" if sx.bool("with_filename") else None)
        sx.check(False, "C05.injected-fault-is-reported", detail=det)
        return ["accepted", idx]
    except parser.ParserError as e:
        ln = e.line
        sx.check(ln == idx + 1, "C05.error-at-injected-line", detail=lambda m: dict(det(m), reported_line=ln, error=str(e)[:200]))
        return ["ParserError", idx, ln]
    except Exception as e:      # noqa
        et = type(e).__name__
        sx.check(False, "C05.only-ParserError", detail=lambda m: dict(det(m), exception=et))
        return ["INTERNAL", et]


def h_reuse(sx):
    """One parser object used again (as Context.execute_steps does with feature.parser): what an earlier parse left behind
    must not make a faulty steps text acceptable - an And/But without a preceding step is still reported at its line."""
    import logging
    logging.disable(logging.CRITICAL)
    from behave import parser
    from vlib import gtree
    tree = gtree.TREES[sx.params["tree"]]
    R = gtree.Renderer()
    R.feature(tree)
    feat = parser.parse_feature("\n".join(l.variants[0] for l in R.lines) + "\n", filename="first.feature")
    pool = ["And orphan", "But orphan", "  And orphan", "Given fine", "When fine", "* fine", "Then fine"]
    lines = [sx.choice("L%d" % i, pool) for i in range(sx.params.get("k", 2))]
    text = gherkin.make_text(sx, lines)
    first_is_orphan = lift_call(lambda l: l.strip().split()[0] in ("And", "But"), (lines[0],), {})

    def det(m):
        return {"first_document": sx.params["tree"], "second_text": [sx.eval(l, m) if m is not None else l for l in lines]}
    try:
        steps = feat.parser.parse_steps(text)
    except parser.ParserError as e:
        ln = e.line
        sx.check(first_is_orphan, "C05.reused-parser-rejects-only-faulty-text", detail=lambda m: dict(det(m), error=str(e)[:200]))
        sx.check(ln == 1, "C05.error-at-injected-line", detail=lambda m: dict(det(m), reported_line=ln))
        return ["ParserError", ln]
    except Exception as e:      # noqa
        et = type(e).__name__
        sx.check(False, "C05.only-ParserError", detail=lambda m: dict(det(m), exception=et))
        return ["INTERNAL", et]
    sx.check(lift_call(lambda b: not b, (first_is_orphan,), {}), "C05.injected-fault-is-reported",
             detail=lambda m: dict(det(m), accepted_as=[[str(sx.eval(s_.step_type, m)), str(sx.eval(s_.name, m))] if m is not None else [str(s_.step_type), str(s_.name)] for s_ in steps]))
    return ["accepted", len(steps)]


_soup_jobs = jobs


def jobs(tier, seed):       # noqa: F811
    js = _soup_jobs(tier, seed)
    for t in ("basic", "o-rule"):
        js.append(Job("reuse.%s" % t, "props.c05:h_reuse", {"tree": t, "k": 2},
                      reach=["C05.injected-fault-is-reported", "C05.error-at-injected-line"], min_paths=3, cost=50, validate=30, closure=False))
    trees = ["basic", "outline", "bg-rule", "mixed", "o-rule"]
    for t in trees + ["o-o"]:
        for f in FAULTS:
            if t == "o-o" and f != "and-without-predecessor":
                continue        # (a rule's background after scenarios with steps, no feature background)
            if f == "ragged-table-row" and t not in ("outline", "mixed", "o-rule"):
                continue
            if f == "underindented-docstring-line" and t != "outline":
                continue
            # (quick tier: blank / comment lines inside tables for the table fault, so that the reported line is not the
            #  row count)
            for fillers in (((0, 1) if f == "ragged-table-row" and t == "outline" else (0,)) if tier == "quick" else (0, 1)):
                js.append(Job("inject.%s.%s.f%d" % (t, f, fillers), "props.c05:h_inject", {"tree": t, "fault": f, "fillers": fillers},
                              reach=["C05.error-at-injected-line"] if not (f == "and-without-predecessor" and t == "bg-rule") else [],
                              min_paths=3, cost=300, validate=30, closure=False))
    return js
