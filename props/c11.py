"""C11 - step matching and dispatch: full-text match, right definition, right arguments."""
import re

from vlib.runner import Job

CALL_PROFILE = []

META = {
    "functions": ["behave.step_registry.StepRegistry.add_step_definition/find_match/find_step_definition/same_step_definition/is_good_step_definition",
                  "behave.matchers.Matcher.match/matches, ParseMatcher/CFParseMatcher/SimplifiedRegexMatcher/CucumberRegexMatcher.check_match",
                  "behave.matchers.Match.run/with_arguments", "behave.matchers.StepMatcherFactory.use_step_matcher/use_default_step_matcher/make_step_matcher/register_type",
                  "behave.runner_util.load_step_modules (matcher reset per module)", "behave.model_core.Argument"],
    "bounds": {"quick": "registration histories of length <=2 (thorough 3) over 11 definitions (parse: plain/typed/anonymous/custom type, cfparse cardinality, re named/"
                        "unnamed/optional groups, re0) x {given, when, step} x 3 functions, chosen by the solver; after every history ALL lookups "
                        "(3 step types x 40 texts: exact instances, wrong case, prefix/suffix, changed literal, bad field) are compared with an "
                        "independent full-match reference; ambiguity/duplicate rules at every registration; Match.run argument passing; argument spans",
               "thorough": "histories of length 3"},
    "outside": ["step text as an unbounded symbolic string and the inside of parse/parse_type/re (third-party / C engine): a z3-regex re-encoding would verify "
                "the library, not behave", "cucumber-expression matcher", "arguments of unmatched optional regex groups (offsets -1) are exempt from the span check"],
    "assumptions": ["reference full-match predicate: own anchored regular expression per definition built from its literal words and field kinds (case-sensitive)"],
    "leverage": "path space only: registration histories enumerated by solver-driven choice; per-history comparison is concrete",
}

# definition = (matcher kind, pattern, reference regex, [field (name|None, converter)], literals)
COLOR = {"red": 1, "green": 2}


def _defs():
    I = lambda s: int(s)
    return [
        ("parse", "a plain step", r"a plain step", [], ["a plain step"]),
        ("parse", "I have {n:d} apples", r"I have ([-+]?\d+) apples", [("n", I)], ["I have ", " apples"]),
        ("parse", "a {name} step", r"a (.+?) step", [("name", str)], ["a ", " step"]),
        ("parse", "pair {:w} and {:w}", r"pair (\w+) and (\w+)", [(None, str), (None, str)], ["pair ", " and ", ""]),
        ("parse", "val {x:f} of {c:Color}", r"val ([-+]?\d*\.\d+) of (red|green)", [("x", float), ("c", lambda s: COLOR[s])], ["val ", " of ", ""]),
        ("cfparse", "numbers {nums:Number+}", r"numbers (\d+(?:\s*,\s*\d+)*)", [("nums", lambda s: [int(x) for x in s.split(",")])], ["numbers ", ""]),
        ("re", r"re (?P<a>\d+) and (\w+)", r"re (\d+) and (\w+)", [("a", str), (None, str)], ["re ", " and ", ""]),
        # optional groups: an unnamed one after another unnamed one, and a named one (absent groups give None, position kept)
        ("re", r"optre (\w+)(?: and (\w+))?(?: (?P<o>x))?", r"optre (\w+)(?: and (\w+))?(?: (x))?", [(None, lambda s: s), (None, lambda s: s), ("o", lambda s: s)], None),
        ("re0", r"^anchored (\d+)$", r"anchored (\d+)", [(None, str)], ["anchored ", ""]),
        ("parse", "I have {n:d} apples now", r"I have ([-+]?\d+) apples now", [("n", I)], ["I have ", " apples now"]),
        ("parse", "a plain {thing}", r"a plain (.+?)", [("thing", str)], ["a plain ", ""]),
        ("re", r"a (?:big|small) step", r"a (?:big|small) step", [], None),
        ("re", r"I have (\d+) apples", r"I have (\d+) apples", [(None, str)], ["I have ", " apples"]),
        # top-level alternation: the WHOLE step text has to match one of the alternatives
        ("re", r"I do this|I do that", r"I do this|I do that", [], None),
    ]


TEXTS = ["a small step", "a plain step", "A plain step", "a plain step ", "xa plain step", "a plain stop", "I have 3 apples", "I have 0 apples", "I have -12 apples", "i have 3 apples",
         "I have x apples", "I have 3 apples now", "I have 3 pears", "a big step", "a  step", "a b c step", "pair x and y", "pair x and", "Pair x and y",
         "val 1.5 of red", "val 0.0 of green", "val 1 of red", "val 2.25 of blue", "numbers 1, 2, 3", "numbers 7", "numbers", "numbers a", "re 12 and ab", "re x and ab",
         "re 12 and ab!", "RE 12 and ab", "optre", "optre a", "optre a and b", "optre a x", "optre a and b x", "I do this", "I do that", "I do this and more", "well I do that", "anchored 5", "anchored 5 x", "x anchored 5", "a plain thing", "a plain ", "", "zzz",
         # step texts spelled exactly like a pattern with fields (they go through the matcher like any other text)
         "a {name} step", "I have {n:d} apples", "^anchored (\\d+)$", "a plain {thing}"]
STYPES = ["given", "when", "step"]


def _funcs(n):
    src = "\n".join("def f%d(context, *args, **kwargs):\n    context.received = ('f%d', args, kwargs)" % (i, i) for i in range(n))
    ns = {}
    exec(compile(src, "/verif/props/c11_generated_steps.py", "exec"), ns)
    return [ns["f%d" % i] for i in range(n)]


def ref_match(d, text):
    kind, pattern, rx, fields, lits = d
    m = re.fullmatch(rx, text)
    if not m:
        return None
    args, kwargs = [], {}
    for (name, conv), g in zip(fields, m.groups()):
        if g is None:
            val = None
        else:
            try:
                val = conv(g)
            except Exception:      # noqa
                return None
        if name is None:
            args.append(val)
        else:
            kwargs[name] = val
    return args, kwargs


def h_registry(sx):
    from behave.step_registry import StepRegistry, AmbiguousStep
    from behave.matchers import use_step_matcher, register_type, get_step_matcher_factory, Match, MatchWithError
    from behave.runner import Context, ModelRunner
    from behave.model import Step
    from vlib.world import base_config
    import parse
    defs = _defs()
    funcs = _funcs(3)
    n = sx.params["n"]
    factory = get_step_matcher_factory()
    factory.reset()

    @parse.with_pattern(r"red|green")
    def parse_color(text):
        return COLOR[text]

    @parse.with_pattern(r"\d+")
    def parse_number(text):
        return int(text)
    for kind in ("parse", "cfparse"):
        use_step_matcher(kind)
        register_type(Color=parse_color, Number=parse_number)
    reg = StepRegistry()
    if sx.params.get("cleared"):
        # a registry that was used before and emptied with clear() (a program embedding behave re-using it between runs)
        reg.add_step_definition("given", u"something registered earlier", funcs[0])
        reg.add_step_definition("step", u"something generic registered earlier", funcs[1])
        reg.clear()
    model = {t: [] for t in ("given", "when", "then", "step")}     # reference registry: lists of (def index, func index)
    hist = []
    for i in range(n):
        if i == 0 and sx.params.get("first") is not None:
            c = sx.params["first"]          # thorough tier: histories sharded by their first registration
        else:
            c = sx.choice("reg%d" % i, list(range(len(defs) * len(STYPES) * 2)))
            c = c if isinstance(c, int) else c.concretize()
        di, rest = c % len(defs), c // len(defs)
        st, fi = STYPES[rest % len(STYPES)], rest // len(STYPES)
        d = defs[di]
        hist.append([d[0], d[1], st, "f%d" % fi])
        use_step_matcher(d[0])
        # -- reference decision: the set of acceptable outcomes {ambiguous, ignored, added}
        # (definitions registered earlier are checked first: identical function+pattern -> ignored; matches(new pattern text)
        #  -> ambiguous.  The identical pattern text with ANOTHER function that does not match its own text (typed fields,
        #  regex groups) is not pinned by the statement - behave rejects it for parse patterns and accepts it for regular
        #  expressions - so there "ambiguous" is acceptable and so is carrying on with the scan.)
        acceptable = set()
        for (ei, ef) in model[st]:
            if (ei, ef) == (di, fi):
                acceptable.add("ignored")
                break
            if ref_match(defs[ei], d[1]) is not None:
                acceptable.add("ambiguous")
                break
            if ei == di:
                acceptable.add("ambiguous")
        else:
            acceptable.add("added")
        before = len(reg.steps[st])
        try:
            reg.add_step_definition(st, d[1], funcs[fi])
            outcome = "added" if len(reg.steps[st]) == before + 1 else "ignored"
        except AmbiguousStep:
            outcome = "ambiguous"
        sx.check(outcome in acceptable, "C11.ambiguity-raised-exactly-when-existing-definition-matches",
                 detail={"history": hist, "outcome": outcome, "acceptable": sorted(acceptable)})
        if outcome == "added":
            model[st].append((di, fi))
        # lookups happen between registrations, too (steps of an earlier feature run before a library is loaded lazily):
        # looking a step up never changes what is registered
        for st_ in ("given", "when", "then"):
            reg.find_match(Step("x.feature", 1, st_.title(), st_, u"zzz no such step"))
        sx.check(len(reg.steps[st]) == len(model[st]) and (outcome != "ignored" or "ignored" in acceptable), "C11.identical-re-registration-ignored",
                 detail={"history": hist, "registered": len(reg.steps[st]), "expected": len(model[st]), "outcome": outcome, "acceptable": sorted(acceptable)})
    # -- all lookups
    runner = ModelRunner(base_config(("--no-summary",)), features=[])
    ctx = Context(runner)
    runner.context = ctx
    obs = []
    held = []
    for st in ("given", "when", "then"):
        cands = model[st] + model["step"]
        for text in TEXTS:
            exp = None
            for (ei, ef) in cands:
                r = ref_match(defs[ei], text)
                if r is not None:
                    exp = (ef, r, ei)
                    break
            step = Step("x.feature", 1, st.title(), st, text)
            m = reg.find_match(step)
            det = {"history": hist, "step_type": st, "text": text, "expected": None if exp is None else ["f%d" % exp[0], repr(exp[1])]}
            if exp is None:
                sx.check(m is None or isinstance(m, MatchWithError), "C11.no-binding-without-full-text-match", detail=dict(det, got=repr(m)))
                continue
            sx.check(m is not None and not isinstance(m, MatchWithError) and m.func is funcs[exp[0]], "C11.bound-to-first-matching-definition(type-before-generic,earlier-first)",
                     detail=dict(det, got=repr(m)))
            if m is None or isinstance(m, MatchWithError) or m.func is not funcs[exp[0]]:
                continue
            held.append((m, text, [(a.name, repr(a.value), a.start, a.end) for a in m.arguments]))
            ctx.received = None
            m.run(ctx)
            got = ctx.received
            sx.check(got == ("f%d" % exp[0], tuple(exp[1][0]), exp[1][1]), "C11.function-receives-converted-parameters(named-by-keyword,anonymous-by-position)",
                     detail=dict(det, got=repr(got)))
            # argument spans
            spans_ok = True
            last = 0
            gaps = []
            for a in m.arguments:
                if a.original is None:
                    continue
                if not (0 <= a.start <= a.end <= len(text)) or text[a.start:a.end] != a.original or a.start < last:
                    spans_ok = False
                    break
                gaps.append(text[last:a.start])
                last = a.end
            gaps.append(text[last:])
            sx.check(spans_ok, "C11.argument-offsets-delimit-original-text", detail=dict(det, args=[(a.start, a.end, a.original) for a in m.arguments]))
            lits = defs[exp[2]][4]
            if spans_ok and lits is not None and all(a.original is not None for a in m.arguments):
                sx.check(gaps == lits, "C11.text-minus-spans==pattern-literals", detail=dict(det, gaps=gaps, literals=lits))
            obs.append([st, text, "f%d" % exp[0]])
    # a match handed out earlier still describes ITS step after later lookups (matches may be collected first and run later,
    # e.g. by a before_step hook that executes other steps)
    for m, text, snap in held:
        now = [(a.name, repr(a.value), a.start, a.end) for a in m.arguments]
        sx.check(now == snap, "C11.match-keeps-its-arguments-after-later-lookups", detail={"history": hist, "text": text, "then": snap, "now": now})
    factory.reset()
    return {"history": hist, "bound": len(obs)}


def h_type_history(sx):
    """A custom type registered again under the same name (register_type(T=conv2) after register_type(T=conv1)): every
    definition converts with the converter that was declared for T when the definition was made."""
    from behave.step_registry import StepRegistry
    from behave.matchers import use_step_matcher, register_type, get_step_matcher_factory
    from behave.runner import Context, ModelRunner
    from behave.model import Step
    from vlib.world import base_config
    import parse
    factory = get_step_matcher_factory()
    factory.reset()
    try:
        kind = sx.choice("matcher", ["parse", "cfparse"])
        kind = kind if isinstance(kind, str) else kind.concretize()
        again = bool(sx.bool("type_registered_again"))
        same_pattern = bool(sx.bool("second_definition_same_pattern"))
        st2 = sx.choice("second_step_type", ["when", "step", "given"])
        st2 = st2 if isinstance(st2, str) else st2.concretize()
        fresh_registry = bool(sx.bool("second_definition_in_fresh_registry"))

        @parse.with_pattern(r"\d+")
        def euros(text):
            return ("EUR", int(text))

        @parse.with_pattern(r"\d+")
        def cents(text):
            return ("CENT", int(text))
        use_step_matcher(kind)
        register_type(Amount=euros)
        got = {}
        reg = StepRegistry()
        reg.add_step_definition("given", u"an amount of {v:Amount}", lambda context, v: got.__setitem__("first", v))
        if again:
            register_type(Amount=cents)
        reg2 = StepRegistry() if fresh_registry else reg
        pat2 = u"an amount of {v:Amount}" if same_pattern else u"a sum of {v:Amount}"
        if st2 == "given" and same_pattern and not fresh_registry:
            st2 = "when"        # (the identical definition twice for one step type is an ambiguity, not this check's subject)
        reg2.add_step_definition(st2, pat2, lambda context, v: got.__setitem__("second", v))
        runner = ModelRunner(base_config(("--no-summary",)))
        ctx = Context(runner)
        runner.context = ctx
        kw2 = {"when": "When", "given": "Given", "step": "Then"}[st2]
        for which, r, kw, stype, text in (("first", reg, "Given", "given", u"an amount of 5"),
                                          ("second", reg2, kw2, "then" if st2 == "step" else st2, pat2.replace(u"{v:Amount}", u"7"))):
            m = r.find_match(Step("x.feature", 1, kw, stype, text))
            det = {"matcher": kind, "type_registered_again": again, "second_pattern": pat2, "second_step_type": st2,
                   "fresh_registry": fresh_registry, "definition": which}
            if m is None:
                sx.check(False, "C11.converted-by-the-type-declared-at-definition", detail=dict(det, error="no match for %r" % text))
                continue
            with ctx.use_with_user_mode():
                m.run(ctx)
            n_ = 5 if which == "first" else 7
            want = ("CENT", n_) if (which == "second" and again) else ("EUR", n_)
            sx.check(got.get(which) == want, "C11.converted-by-the-type-declared-at-definition",
                     detail=dict(det, received=repr(got.get(which)), expected=repr(want)))
        return {"kind": kind, "got": {k: list(v) for k, v in got.items()}}
    finally:
        factory.reset()


def h_converter_fault(sx):
    """A definition whose pattern matches but whose type converter rejects the value keeps the step (it errors); a later
    or generic definition that also matches the text does not take over."""
    from behave.step_registry import StepRegistry
    from behave.matchers import use_step_matcher, register_type, get_step_matcher_factory, MatchWithError
    from behave.model import Step
    import parse
    factory = get_step_matcher_factory()
    factory.reset()
    try:
        kind = sx.choice("matcher", ["parse", "cfparse"])
        kind = kind if isinstance(kind, str) else kind.concretize()
        st2 = sx.choice("second_step_type", ["given", "step"])
        st2 = st2 if isinstance(st2, str) else st2.concretize()
        value = sx.choice("value", ["5", "12", "99"])
        value = value if isinstance(value, str) else value.concretize()

        @parse.with_pattern(r"\d+")
        def small(text):
            n = int(text)
            if n >= 10:
                raise ValueError("%d is not small" % n)
            return n
        use_step_matcher(kind)
        register_type(Small=small)
        reg = StepRegistry()
        first = lambda context, amount: None
        later = lambda context, anything: None
        reg.add_step_definition("given", u"{amount:Small} items in the basket", first)
        reg.add_step_definition(st2, u"{anything} in the basket", later)
        m = reg.find_match(Step("x.feature", 1, "Given", "given", u"%s items in the basket" % value))
        det = {"matcher": kind, "second_step_type": st2, "value": value, "match": repr(m)}
        if int(value) >= 10:
            sx.check(isinstance(m, MatchWithError) and m.func is first, "C11.conversion-error-stays-with-the-first-matching-definition", detail=det)
        else:
            sx.check(m is not None and not isinstance(m, MatchWithError) and m.func is first,
                     "C11.bound-to-first-matching-definition(type-before-generic,earlier-first)", detail=det)
        return {"value": value, "kind": kind, "error": isinstance(m, MatchWithError)}
    finally:
        factory.reset()


def h_module_reset(sx):
    """load_step_modules: a matcher switch inside one step module does not leak into the next one."""
    import os
    import shutil
    import tempfile
    from behave import step_registry
    from behave.runner_util import load_step_modules
    from behave.matchers import get_step_matcher_factory
    from behave.model import Step
    which = sx.choice("first_matcher", ["re", "cfparse", "parse"])
    which = which if isinstance(which, str) else which.concretize()
    # the project-wide default matcher, chosen before the step modules load (as environment.py does with use_step_matcher)
    default = sx.choice("project_default", ["parse", "re", "cfparse"])
    default = default if isinstance(default, str) else default.concretize()
    second = u"second (\\d+) thing" if default == "re" else u"second {x:d} thing"
    want = [u"5"] if default == "re" else [5]
    tmp = tempfile.mkdtemp(prefix="c11-")
    old = step_registry.registry
    try:
        d = os.path.join(tmp, "steps")
        os.makedirs(d)
        with open(os.path.join(d, "a_first.py"), "w") as f:
            f.write("from behave import given, use_step_matcher\nuse_step_matcher(%r)\n@given(u'first thing')\ndef s1(context): pass\n" % which)
        with open(os.path.join(d, "b_second.py"), "w") as f:
            f.write("from behave import given\n@given(r'%s')\ndef s2(context, x): context.x = x\n" % second)
        with open(os.path.join(d, "c_third.py"), "w") as f:
            f.write("from behave import when\n@when(r'%s')\ndef s3(context, x): context.x = x\n" % second)
        get_step_matcher_factory().reset()
        from behave.matchers import use_step_matcher
        if default != "parse":
            use_step_matcher(default)
        reg = step_registry.StepRegistry()
        step_registry.registry = reg
        step_registry.setup_step_decorators(None, reg)
        import behave
        saved = {k: getattr(behave, k) for k in ("given", "when", "then", "step", "Given", "When", "Then", "Step")}
        for k in saved:
            setattr(behave, k, getattr(step_registry, k))
        try:
            load_step_modules([d])
        finally:
            for k, v in saved.items():
                setattr(behave, k, v)
        for kw, st in (("Given", "given"), ("When", "when")):
            m = reg.find_match(Step("x.feature", 1, kw, st, "second 5 thing"))
            sx.check(m is not None and [a.value for a in m.arguments] == want, "C11.matcher-switch-does-not-leak-into-next-step-module",
                     detail={"first_module_matcher": which, "project_default": default, "step_type": st, "match": repr(m),
                             "args": None if m is None else [a.value for a in m.arguments]})
        return which
    finally:
        step_registry.registry = old
        step_registry.setup_step_decorators(None, old)
        get_step_matcher_factory().reset()
        shutil.rmtree(tmp, ignore_errors=True)


def jobs(tier, seed):
    js = []
    n = 2 if tier == "quick" else 3
    js.append(Job("registry.n1", "props.c11:h_registry", {"n": 1}, reach=["C11.bound-to-first-matching-definition(type-before-generic,earlier-first)",
                  "C11.function-receives-converted-parameters(named-by-keyword,anonymous-by-position)", "C11.argument-offsets-delimit-original-text"],
                  min_paths=30, cost=10, validate=30, closure=False))
    firsts = list(range(len(_defs()) * len(STYPES) * 2))       # histories sharded by their first registration
    for first in firsts:
        js.append(Job("registry.n%d%s" % (n, "" if first is None else ".first%03d" % first), "props.c11:h_registry", {"n": n, "first": first},
                      reach=["C11.bound-to-first-matching-definition(type-before-generic,earlier-first)",
                             "C11.ambiguity-raised-exactly-when-existing-definition-matches", "C11.identical-re-registration-ignored"],
                      min_paths=50, cost=5000, validate=2 if tier == "quick" else 10, closure=False, max_paths=600000, budget_s=1500))
    for first in firsts[::max(1, len(firsts) // 8)]:
        js.append(Job("registry.cleared.n2.first%03d" % first, "props.c11:h_registry", {"n": 2, "first": first, "cleared": True},
                      reach=["C11.bound-to-first-matching-definition(type-before-generic,earlier-first)",
                             "C11.ambiguity-raised-exactly-when-existing-definition-matches"],
                      min_paths=50, cost=5000, validate=2, closure=False, max_paths=600000))
    js.append(Job("converter-fault", "props.c11:h_converter_fault", {}, reach=["C11.conversion-error-stays-with-the-first-matching-definition"],
                  min_paths=8, cost=5, validate="all", closure=False))
    js.append(Job("type-history", "props.c11:h_type_history", {}, reach=["C11.converted-by-the-type-declared-at-definition"], min_paths=20, cost=5,
                  validate=40, closure=False))
    js.append(Job("module-reset", "props.c11:h_module_reset", {}, reach=["C11.matcher-switch-does-not-leak-into-next-step-module"], min_paths=3, cost=5,
                  validate="all", closure=False))
    return js
