"""C19 - active tags exclude exactly by the documented per-category logic."""
import operator
import re

import z3

import symx
from symx import SymChoice, SymInt, SymBool, zbool
from vlib.runner import Job

CALL_PROFILE = []

META = {
    "functions": ["behave.tag_matcher.ActiveTagMatcher.should_exclude_with/should_run_with/is_tag_group_enabled/group_active_tags_by_category/"
                  "select_active_tags/make_tag_pattern/is_tag_negated", "behave.tag_matcher.ValueObject/NumberValueObject/BoolValueObject.matches",
                  "behave.tag_matcher.CompositeTagMatcher.should_exclude_with", "behave.tag_matcher.ActiveTagValueProvider/CompositeActiveTagValueProvider.get"],
    "bounds": {"quick": "tag sequences of <=2 slots over 24 tag texts (incl. signed numbers, mixed-case boolean words) (positive/negative/alias prefixes for 3 categories, malformed values, unknown "
                        "category, ordinary tags) - order matters and is enumerated; current values symbolic: string category over 4 values or unknown, "
                        "numeric category an unbounded integer (compare ge / le / eq) or unknown, boolean category; provider kinds dict / "
                        "ActiveTagValueProvider with lazy callables / composite provider; composite matcher of two; two-decision histories: lazy value objects "
                        "reading a cell that changes (symbolically) between the first and the checked decision",
               "thorough": "<=3 slots"},
    "outside": ["tag schemas with custom regular expressions", "python-version value objects of behave.active_tag.python (string kernel in C)"],
    "assumptions": ["documented formula: excluded <=> for some category known to the provider: (positive tags exist and none matches) or (a negative tag matches)"],
    "leverage": "data-symbolic: the numeric current value is an unbounded z3 integer, string/boolean values and category knowledge are symbolic; tag sequences enumerated",
}

TAGS = [None, "use.with_os=win", "use.with_os=linux", "not.with_os=win", "only.with_os=linux", "active.with_os=win", "not_active.with_os=linux",
        "use.with_ver=3", "use.with_ver=10", "not.with_ver=5", "not_active.with_ver=10", "use.with_ver=abc", "not.with_ver=", "use.with_ver=-5", "not.with_ver=+3",
        "use.with_flag=yes", "not.with_flag=off", "use.with_flag=maybe", "use.with_flag=False", "not.with_flag=NO", "use.with_nosuch=1", "not.with_nosuch=1", "wip", "use.with_os",
        "use.with_os=", "not.with_os="]        # an empty value is a value (it matches the current value "")
OS_VALUES = ["win", "linux", "", "Win"]
POSITIVE = ("use", "only", "active")
NEGATIVE = ("not", "not_active", "not_on")      # "not_on": custom negative prefix of the custom-prefixes variant


class Provider(object):
    """dict-like value provider whose knowledge of a category is symbolic (decided lazily)."""

    def __init__(self, sx, values):
        self.sx = sx
        self.values = values

    def get(self, category, default=None):
        if category in self.values and self.sx.bool("known:%s" % category):
            return self.values[category]
        return default


def parse_tag(t, sep="=", allowed=None):
    if t is None or ".with_" not in t or sep not in t.split(".with_", 1)[1]:
        return None
    prefix, rest = t.split(".with_", 1)
    cat, val = rest.split(sep, 1)
    if not re.match(r"^\w+(\.\w+)*$", cat):
        return None
    if prefix not in (allowed or (POSITIVE + ("not", "not_active"))):
        return None
    return prefix, cat, val


def h_active(sx):
    from behave.tag_matcher import (ActiveTagMatcher, ValueObject, NumberValueObject, BoolValueObject, CompositeTagMatcher,
                                    ActiveTagValueProvider, CompositeActiveTagValueProvider)
    p = sx.params
    n = p["slots"]
    tags = []
    sep = p.get("separator", "=")
    for i in range(n):
        c = sx.choice("slot%d" % i, (p.get("slot_pools") or {}).get(str(i)) or list(range(len(TAGS))))
        t = TAGS[c if isinstance(c, int) else c.concretize()]
        if t is not None:
            tags.append(t.replace("=", sep))
    if sep != "=":
        tags.append("use.with_os=win")      # written with the DEFAULT separator: not an active tag of this matcher
    if p.get("custom_prefixes"):
        # prefixes passed to the constructor: "not_on" replaces "not" (negative), the positive ones stay
        tags = [t.replace("not.with_", "not_on.with_") for t in tags] + ["not.with_os=win"]     # plain "not." is no prefix here
    os_cur = sx.choice("os", OS_VALUES)
    ver_cur = sx.int("ver")
    flag_cur = sx.bool("flag")
    cmp_name = p.get("ver_compare", "ge")
    cmp = {"ge": operator.ge, "le": operator.le, "eq": operator.eq}[cmp_name]
    lazy = p.get("lazy")
    history = p.get("history")
    if history:
        # two-decision history: every current value is a lazy value object reading a mutable cell; an earlier
        # decision is taken with other (symbolic) current values, then the cell changes
        cell = {"os": sx.choice("os0", OS_VALUES), "ver": sx.int("ver0"), "flag": sx.bool("flag0")}
        values = {"os": ValueObject(lambda: cell["os"]), "ver": NumberValueObject(lambda: cell["ver"], cmp),
                  "flag": BoolValueObject(lambda: cell["flag"])}
    else:
        values = {"os": (lambda: os_cur) if lazy else os_cur,
                  "ver": NumberValueObject((lambda: ver_cur) if lazy else ver_cur, cmp),
                  "flag": BoolValueObject(flag_cur)}
    # category names with several dots (as behave's own "python.feature.xxx" style providers use)
    RN = {"os": "app.ui.os", "ver": "py.impl.ver", "flag": "x.y.z.flag"} if p.get("dotted_categories") else {}
    INV = {v: k for k, v in RN.items()}
    if RN:
        for k_, v_ in RN.items():
            tags = [t.replace(".with_%s%s" % (k_, sep), ".with_%s%s" % (v_, sep)) for t in tags]
        values = {RN[k_]: v_ for k_, v_ in values.items()}
    kind = p.get("provider", "dict")
    prov = Provider(sx, values)
    if kind == "atvp":
        inner = prov

        class P2(ActiveTagValueProvider):
            def get(self, category, default=None):
                return self.use_value(inner.get(category, default))
        prov = P2()
    elif kind == "atvp-real":
        # behave's own provider class on a plain dict: knowledge of a category is decided when the dict is built
        prov = ActiveTagValueProvider({c: v for c, v in values.items() if sx.bool("known:%s" % c)})
    elif kind == "composite-real":
        prov = CompositeActiveTagValueProvider([ActiveTagValueProvider({c: v for c, v in values.items() if c == "os" and sx.bool("known:%s" % c)}),
                                                {c: v for c, v in values.items() if c != "os" and sx.bool("known:%s" % c)}])
    elif kind == "composite-overlap":
        # two sub-providers know the category "os" (local overrides in front of defaults): the FIRST one that knows it wins
        prov = CompositeActiveTagValueProvider([Provider(sx, values), {"os": "plan9"}])
    elif kind == "composite":
        prov = CompositeActiveTagValueProvider([Provider(sx, {"os": values["os"]}), Provider(sx, {"ver": values["ver"], "flag": values["flag"]})])
    matcher = ActiveTagMatcher(prov)
    if sep != "=":
        # custom value separator - built after a default matcher exists in the same process
        matcher = ActiveTagMatcher(prov, value_separator=sep)
    if p.get("custom_prefixes"):
        matcher = ActiveTagMatcher(prov, tag_prefixes=["use", "only", "active", "not_on", "not_active"])
    if p.get("composite_matcher"):
        other = ActiveTagMatcher({"os": "never-matches"})
        matcher = CompositeTagMatcher([matcher, other])
    import logging
    logging.disable(logging.CRITICAL)
    if history:
        # user code may look categories up itself (e.g. print_active_tags) with its own default - known or not
        looked = [prov.get(c) for c in ("os", "ver", "flag", "nosuch")] + [prov.get("nosuch", "n/a")]
        first = bool(matcher.should_exclude_with(["wip", "not.with_ver=5"]))
        seen = [v.value for v in values.values()]        # reading .value (as repr/str do) must not freeze it either
        cell.update({"os": os_cur, "ver": ver_cur, "flag": flag_cur})
    excluded = bool(matcher.should_exclude_with(list(tags)))
    runs = bool(matcher.should_run_with(list(tags)))
    # ---- documented formula
    oz = {v: (os_cur.sel == i if isinstance(os_cur, SymChoice) else z3.BoolVal(os_cur == v)) for i, v in enumerate(OS_VALUES)}
    verz = ver_cur.e if isinstance(ver_cur, SymInt) else z3.IntVal(ver_cur)
    flagz = zbool(flag_cur)

    def matches(cat, val):
        if cat == "os":
            return z3.Or([oz[v] for v in OS_VALUES if v == val]) if val in OS_VALUES else z3.BoolVal(False)
        if cat == "ver":
            try:
                k = int(val)
            except ValueError:
                return z3.BoolVal(False)
            return {"ge": verz >= k, "le": verz <= k, "eq": verz == k}[cmp_name]
        if cat == "flag":
            low = val.lower()
            if low in ("true", "yes", "on"):
                return flagz
            if low in ("false", "no", "off"):
                return z3.Not(flagz)
            return z3.BoolVal(False)
        return z3.BoolVal(False)

    def formula(known_extra=None):
        cats = {}
        for t in tags:
            pt = parse_tag(t, sep, ("use", "only", "active", "not_on", "not_active") if p.get("custom_prefixes") else None)
            if pt:
                cats.setdefault(pt[1], []).append(pt)
        disj = []
        for cat, pts in cats.items():
            base = INV.get(cat, cat if not RN else None)
            if base not in ("os", "ver", "flag"):
                continue    # unknown categories never exclude
            known = zbool(sx.bool("known:%s" % cat))
            pos = [matches(base, v) for (pf, c, v) in pts if pf in POSITIVE]
            neg = [matches(base, v) for (pf, c, v) in pts if pf in NEGATIVE]
            if kind == "composite-overlap" and base == "os":
                # when the first provider does not know "os" the second one answers with a value no tag names
                pos = [z3.And(known, m_) for m_ in pos]
                neg = [z3.And(known, m_) for m_ in neg]
                known = z3.BoolVal(True)
            parts = []
            if pos:
                parts.append(z3.Not(z3.Or(pos)))
            if neg:
                parts.append(z3.Or(neg))
            if parts:
                disj.append(z3.And(known, z3.Or(parts)))
        return z3.Or(disj) if disj else z3.BoolVal(False)

    spec = formula()
    if p.get("composite_matcher"):
        # second matcher: os is known with a value that matches nothing
        pts = [parse_tag(t) for t in tags if parse_tag(t) and parse_tag(t)[1] == "os"]
        pos = [x for x in pts if x[0] in POSITIVE]
        spec = z3.Or(spec, z3.BoolVal(bool(pos)))

    def det(m):
        return {"tags": tags, "impl_excluded": excluded, "ver_compare": cmp_name,
                "os": sx.eval(os_cur, m) if m is not None else os_cur, "ver": sx.eval(ver_cur, m) if m is not None else ver_cur,
                "flag": sx.eval(flag_cur, m) if m is not None else flag_cur,
                "known": {c: (sx.eval(sx.bool("known:%s" % c), m) if m is not None else bool(sx.bool("known:%s" % c)))
                          for c in [RN.get(c_, c_) for c_ in ("os", "ver", "flag")]}}
    sx.check(spec if excluded else z3.Not(spec), "C19.excluded==documented-formula", detail=det)
    sx.check(runs == (not excluded), "C19.should_run==not-should_exclude", detail=det)
    return {"tags": tags, "excluded": excluded}


def jobs(tier, seed):
    js = []
    slots = 2 if tier == "quick" else 3
    variants = [{"ver_compare": "ge"}, {"ver_compare": "le", "lazy": True}, {"ver_compare": "eq", "provider": "atvp"},
                {"ver_compare": "ge", "provider": "composite"}, {"ver_compare": "ge", "composite_matcher": True},
                {"ver_compare": "ge", "provider": "atvp-real"}, {"ver_compare": "le", "provider": "composite-real"},
                {"ver_compare": "ge", "history": True}, {"ver_compare": "eq", "history": True, "provider": "composite-real"},
                {"ver_compare": "ge", "separator": ":"}, {"ver_compare": "le", "custom_prefixes": True},
                {"ver_compare": "ge", "dotted_categories": True}, {"ver_compare": "le", "provider": "composite-overlap"}]
    # three slots: tags of one category separated by an active tag of ANOTHER category (grouping must not depend on adjacency)
    os_tags = [i for i, t in enumerate(TAGS) if t and "with_os" in t]
    other = [i for i, t in enumerate(TAGS) if t and ("with_ver=3" in t or "with_flag=yes" in t or "with_ver=5" in t)]
    js.append(Job("active.split-category", "props.c19:h_active",
                  {"ver_compare": "ge", "slots": 3, "slot_pools": {"0": os_tags, "1": other, "2": os_tags}},
                  reach=["C19.excluded==documented-formula"], min_paths=50, cost=500, validate=100, closure=False, max_paths=500000, budget_s=1500))
    for i, v in enumerate(variants):
        js.append(Job("active.v%d" % i, "props.c19:h_active", dict(v, slots=slots if i == 0 else 2),
                      reach=["C19.excluded==documented-formula"], min_paths=100, cost=1000 if i == 0 else 100,
                      validate=150, closure=False, max_paths=500000, budget_s=1500))
    return js
