"""C02 - step execution: order, outcome-to-status mapping, stop after first non-pass."""
from vlib.runner import Job
from vlib.shapes import F, S, O, R

CALL_PROFILE = []

META = {
    "functions": [
        "behave.model.Scenario.run/iter_steps/background_steps", "behave.model.Background.iter_steps/inherited_steps",
        "behave.model.Step.run/reset", "behave.model.copy_and_reset_steps", "behave.matchers.Match.run",
        "behave.matchers.Matcher.match / MatchWithError.run (type-conversion error)",
        "behave.api.async_step.async_run_until_complete", "behave.model.ScenarioOutlineBuilder.make_scenario_for (row variant)",
        "behave.step_registry.StepRegistry.find_match", "behave.runner.ModelRunner.run_model/abort",
    ],
    "bounds": {
        "quick": "one scenario (plain / outline row) with 0,1,2 levels of inherited background, <=4 steps in total; "
                 "outcome of every step over all of Z (9 behaviours + anything-else-passes); UNDEF and conversion-error "
                 "Booleans per step text; @wip on/off; dry-run symbolic; continue_after_failed_step on/off; sync and async; "
                 "re-run of the same objects with an independent second outcome vector",
        "thorough": "<=6 steps in total, two scenarios sharing backgrounds, rule+outline rows",
    },
    "outside": ["re-running without Feature.reset() after a step skipped its scenario (should_skip is sticky by design; reset() is the documented protocol)",
                "outcome sequences longer than the bound (the property's 'longer ones randomly' part is not sampled; the bound is stated)",
                "KeyboardInterrupt combined with continue_after_failed_step"],
    "assumptions": ["gated matcher: step text undefined iff UNDEF[src]; conversion error iff CONVERR[src] (raised by a registered type converter)",
                    "context.scenario is used by the harness' step function to tell scenarios apart"],
    "leverage": "data-symbolic: outcomes are unbounded integers; per-path oracle is the RunSpec reference interpreter",
}

REACH = ["C02.call-log==RunSpec", "C02.step-statuses==RunSpec"]


def jobs(tier, seed):
    js = []
    base = ["steps", "verdict"]
    shapes = {
        "plain3": [F([S(3)])],
        "bg1+2": [F([S(2)], bg=1)],
        "bg-feature+rule": [F([R([S(2)], bg=1)], bg=1)],
        "row": [F([O(2, [(1, [])])], bg=1)],
        "wip": [F([S(3, tags=["wip"])])],
        "wip-feature-row": [F([O(2, [(1, [])])], tags=["wip"], bg=1)],
        "wip-rule": [F([R([S(2)], tags=["wip"], bg=1)])],
        "rule-row": [F([R([O(1, [(1, [])])], bg=1)], bg=1)],
        "rule-row-param-bg": [F([R([O(1, [(2, [])]), S(1)], bg=1, bgp=True)], bg=1)],
        "row-param-feature-bg": [F([O(1, [(2, [])])], bg=1, bgp=True)],
    }
    if tier == "thorough":
        shapes.update({
            "plain5": [F([S(5)])],
            "bg2+rule2+2": [F([R([S(2)], bg=2)], bg=2)],
            "two-share-bg-param": [F([S(1), R([S(1), O(1, [(2, [])])], bg=1, bgp=True)], bg=1)],
            "wip-rule3": [F([R([S(3)], tags=["wip"], bg=1)])],
        })
    # steps that run sub-steps through context.execute_steps(): a failing sub-step fails its caller (ground-truth events)
    js.append(Job("nested-steps", "vlib.stage1:h_stage1",
                  {"shapes": [F([S(2), S(1)])],
                   "opts": {"nested_steps": ["f0.i0.0", "f0.i1.0"], "nested_exceptions": True, "out_dom": {"*": [0, 2]}, "undef": False},
                   "checks": ["verdict"]},
                  reach=["C01.no-false-green(events)"], min_paths=20, cost=300, validate=100))
    # several scenarios of one rule below a FEATURE background (each has its own copy of the inherited steps)
    js.append(Job("seq.rule-2sc-below-feature-bg", "vlib.stage1:h_stage1",
                  {"shapes": [F([R([S(1), S(1)], bg=1)], bg=2)], "opts": {"out_dom": {"*": [0, 2]}, "undef": False}, "checks": base},
                  reach=REACH, min_paths=20, cost=100, validate=100))
    for name, sh in shapes.items():
        opts = {"dry_run": "sym"} if "param" not in name else {"out_dom": {"*": [0, 2]}}
        js.append(Job("seq.%s" % name, "vlib.stage1:h_stage1",
                      {"shapes": sh, "opts": opts, "checks": base},
                      reach=REACH, min_paths=20, cost=100, validate=150 if tier == "quick" else 3000))
    js.append(Job("converr", "vlib.stage1:h_stage1",
                  {"shapes": [F([S(2)], bg=1)], "opts": {"dry_run": "sym", "converr": True, "out_dom": {"*": [0, 3]}},
                   "checks": base}, reach=REACH, min_paths=20, cost=100, validate=150))
    js.append(Job("exc-classes", "vlib.stage1:h_stage1",
                  {"shapes": [F([S(2, tags=["wip"]), S(1)])],
                   "opts": {"out_dom": {"*": [0, 3]}, "exc_kinds": ["RuntimeError", "NotImplementedError", "KeyError", "StopIteration"]},
                   "checks": base}, reach=REACH, min_paths=20, cost=100, validate=150))
    js.append(Job("async", "vlib.stage1:h_stage1",
                  {"shapes": [F([S(2)], bg=1)], "opts": {"async_steps": True, "out_dom": {"*": [0, 8]}},
                   "checks": base}, reach=REACH, min_paths=20, cost=100, validate=150))
    js.append(Job("async-timeout", "vlib.stage1:h_stage1",
                  {"shapes": [F([S(2), S(1)])], "opts": {"async_steps": "timeout", "out_dom": {"*": [0, 5]}},
                   "checks": base}, reach=REACH, min_paths=20, cost=100, validate=150))
    js.append(Job("continue", "vlib.stage1:h_stage1",
                  {"shapes": [F([S(3)])], "opts": {"continue_after_failed_step": True, "out_dom": {"*": [0, 3]}},
                   "checks": base}, reach=REACH, min_paths=20, cost=100, validate=150))
    js.append(Job("continue-set-in-hook", "vlib.stage1:h_stage1",
                  {"shapes": [F([S(3)], bg=1)], "opts": {"continue_after_failed_step": "in-hook", "hooks": True, "fault": False, "out_dom": {"*": [0, 2]}},
                   "checks": base}, reach=REACH, min_paths=20, cost=100, validate=150))
    js.append(Job("rerun.reset", "vlib.stage1:h_stage1",
                  {"shapes": [F([S(2)], bg=1)], "opts": {"out_dom": {"*": [0, 5]}, "rerun_reset": True},
                   "checks": ["steps", "rerun"]},
                  reach=["C02.rerun.call-log==RunSpec(OUT2)", "C02.rerun.step-statuses==RunSpec(OUT2)"],
                  min_paths=50, cost=300, validate=150))
    js.append(Job("rerun.noreset", "vlib.stage1:h_stage1",
                  {"shapes": [F([S(2)], bg=1)], "opts": {"out_dom": {"*": [0, 4]}, "out_dom2": {"*": [0, 5]}},
                   "checks": ["steps", "rerun"]},
                  reach=["C02.rerun.call-log==RunSpec(OUT2)", "C02.rerun.step-statuses==RunSpec(OUT2)"],
                  min_paths=50, cost=300, validate=150))
    # reset + second run of outline rows whose background step carries the row's value
    js.append(Job("rerun.reset.row-param-bg", "vlib.stage1:h_stage1",
                  {"shapes": [F([O(1, [(2, [])])], bg=1, bgp=True)], "opts": {"out_dom": {"*": [0, 1]}, "rerun_reset": True, "undef": False},
                   "checks": ["steps", "rerun"]},
                  reach=["C02.rerun.call-log==RunSpec(OUT2)", "C02.rerun.step-statuses==RunSpec(OUT2)"],
                  min_paths=50, cost=300, validate=100))
    if tier == "thorough":
        js.append(Job("rerun.row", "vlib.stage1:h_stage1",
                      {"shapes": [F([O(1, [(2, [])]), S(1)], bg=1)], "opts": {"out_dom": {"*": [0, 2]}, "rerun_reset": True, "undef": False},
                       "checks": ["steps", "rerun"]},
                      reach=["C02.rerun.call-log==RunSpec(OUT2)"], min_paths=50, cost=3000, validate=3000))
    return js
