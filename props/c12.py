"""C12 - hooks: nested order, after-hooks always paired, hook faults contained."""
from vlib.runner import Job
from vlib.shapes import F, S, O, R
from vlib.stage1 import build_world
from vlib.runspec import runspec, hookspec

CALL_PROFILE = []

META = {
    "functions": ["behave.runner.ModelRunner.run_hook/run_model/abort", "behave.model.ScenarioContainer.run (hooks_called bracketing)",
                  "behave.model.Scenario.run", "behave.model.ScenarioOutline.run", "behave.model.Step.run (before_step/after_step)",
                  "behave.runner.Context.use_with_user_mode"],
    "bounds": {
        "quick": "5 shapes (<=3 scenarios x <=2 steps; tags on feature/rule/scenario/examples; rule; outline rows), outcomes in "
                 "{pass, assert-fail, exception} (+skip-scenario in one shape), fault position k over all of Z (every hook call of "
                 "the run is an injection point by construction), Exception/AssertionError symbolic, --stop symbolic, "
                 "selection symbolic in one shape, dry-run symbolic",
        "thorough": "9 shapes, <=4 scenarios, two features, pairs of injection points (k1 < k2 over Z); the three larger shapes with outcomes "
                    "{pass, assert-fail}, no undefined steps, stop concrete, the fault position split into 5-10 intervals covering Z",
    },
    "outside": ["KeyboardInterrupt raised inside a hook (propagates by design)", "hooks that themselves call abort()/mark_skipped()",
                "runs aborted by a step (hook expectations after an abort are not stated by the property)"],
    "assumptions": ["self-composition: the same shape is run twice in one path with the same symbolic outcomes, first without and then with the fault",
                    "after_tag hooks are accepted in tag order (as documented) - only their multiset and position are asserted"],
    "leverage": "data-symbolic: fault position is an unbounded integer; one path per distinct hook call site reached",
}


def _ancestry(e):
    s = {e.eid}
    for a in e.ancestors():
        s.add(a.eid)
    return s


def _descendants(e):
    out = {e.eid}
    for c in e.children:
        out |= _descendants(c)
    return out


def h_hooks(sx):
    p = sx.params
    # ---- run 1: fault-free
    w1, flags = build_world(sx, {"hooks": True, "fault": False})
    w1.run()
    sx.check(w1.escaped is None, "C12.run1.no-exception", detail=lambda m: repr(w1.escaped))
    ex = runspec(w1, flags)
    exp = hookspec(w1, ex, flags)
    L1 = [tuple(h) for h in w1.hooklog]
    exp_na = [(n, a) for n, a, _ in exp]

    def fl(m):
        return {k: (sx.eval(v, m) if m is not None else bool(v)) for k, v in flags.items()}
    sx.check(L1 == exp_na, "C12.nested-order(fault-free)", detail=lambda m: {"real": L1, "expected": exp_na, "flags": fl(m)})
    if flags["dry_run"]:
        sx.check(not L1, "C12.no-hooks-in-dry-run")
    # hooks are not called for skipped (de-selected) elements
    skipped = [s.eid for s in w1.scenario_elems() if s.eid in ex.reached and s.eid not in ex.executed]
    for sid in skipped:
        sx.check(not any(a is not None and (a == sid or str(a).startswith(sid + "/")) for _, a in L1),
                 "C12.no-hooks-for-skipped", detail=lambda m, sid=sid: {"sid": sid, "log": L1})
    obs = {"L1": [list(x) for x in L1], "st1": w1.status_table()}
    if L1 != exp_na:
        return obs
    # ---- run 2: the k-th hook call raises
    w2, _ = build_world(sx, {"hooks": True, "fault": True, "fault2": bool(p.get("two_faults"))})
    if p.get("two_faults"):
        sx.assume(sx.int("fault") < sx.int("fault2"))
    if p.get("fault_range"):
        # thorough tier: the unbounded fault position is split into intervals that together cover Z (parallel jobs)
        lo, hi = p["fault_range"]
        if lo is not None:
            sx.assume(sx.int("fault") >= lo)
        if hi is not None:
            sx.assume(sx.int("fault") < hi)
    w2.run()
    L2 = [tuple(h) for h in w2.hooklog]
    obs.update(L2=[list(x) for x in L2], st2=w2.status_table(), fired=[list(map(str, f)) for f in w2.fault_fired],
               verdict2=w2.verdict)
    sx.check(w2.escaped is None, "C12.fault-does-not-escape-runner", detail=lambda m: repr(w2.escaped))
    if w2.escaped is not None or not w2.fault_fired:
        if not w2.fault_fired:
            # no injection (k outside the run): run 2 must equal run 1
            sx.check(L2 == L1 and w2.status_table() == w1.status_table(), "C12.no-fault-no-difference")
        return obs
    det = lambda m: {"fired": [list(map(str, f)) for f in w2.fault_fired], "L1": L1, "L2": L2, "st1": w1.status_table(),
                     "st2": w2.status_table(), "steps2": w2.step_status_table(), "flags": fl(m)}
    sx.check(w2.verdict is True, "C12.hook-fault-fails-run", detail=det)
    # -- pairing: every started before-phase has its after-hook
    for i, (n, a) in enumerate(L2):
        if n.startswith("before_"):
            after = "after_" + n[len("before_"):]
            sx.check((after, a) in L2[i + 1:], "C12.after-hook-paired", detail=lambda m, n=n, a=a: dict(det(m), unpaired=[n, a]))
        elif n.startswith("after_"):
            # ... and no after-hook runs for something whose before-hook was never called (a teardown without its set-up)
            before = "before_" + n[len("after_"):]
            sx.check((before, a) in L2[:i], "C12.after-hook-paired", detail=lambda m, n=n, a=a: dict(det(m), after_without_before=[n, a]))
    if len(w2.fault_fired) > 1:
        return obs
    k, fname, farg = w2.fault_fired[0][:3]
    owner = exp[k - 1][2] if k - 1 < len(exp) else None
    sx.check(L2[:k] == L1[:k], "C12.identical-until-fault")
    if owner is None:
        # before_all / after_all: run aborted
        if fname == "before_all":
            sx.check(not w2.calls, "C12.before_all-failure-aborts", detail=det)
            sx.check(L2 == [("before_all", None), ("after_all", None)], "C12.before_all-failure-aborts", detail=det)
        else:
            sx.check(w2.status_table() == w1.status_table(), "C12.after_all-failure-leaves-results", detail=det)
        return obs
    st1, st2 = w1.status_table(), w2.status_table()
    steps1, steps2 = w1.step_status_table(), w2.step_status_table()
    by_id = {}
    for rd in w2.rendered:
        by_id.update(rd.by_id)
    if "/" in owner:
        sid, src = owner.split("/")
        e = by_id[sid]
        idx = e.steps.index(src)
        sx.check(steps2[sid][idx] == "hook_error", "C12.exactly-the-element-concerned(step)", detail=det)
        if fname == "before_step":
            sx.check((sid, src) not in [tuple(c) for c in w2.calls], "C12.failing-before-hook-skips-body", detail=det)
        sx.check(st2[sid] == "error", "C12.step-hook-error-makes-scenario-error", detail=det)
    else:
        e = by_id[owner]
        sx.check(st2[owner] == "hook_error", "C12.exactly-the-element-concerned", detail=lambda m: dict(det(m), owner=owner))
        if fname.startswith("before_"):
            inside = _descendants(e)
            leaf = {s.eid for s in e.scenarios()}
            sx.check(not any(c[0] in leaf for c in w2.calls), "C12.failing-before-hook-skips-body",
                     detail=lambda m: dict(det(m), owner=owner))
    # -- containment: elements outside the failing element's ancestry keep their result
    anc = _ancestry(e)
    desc = _descendants(e)
    order = [x.eid for rd in w2.rendered for x in rd.features[0].scenarios()]
    first_inside = min([order.index(s.eid) for s in e.scenarios()] or [len(order)])
    stop = flags["stop"]
    for x in w2.elems(("feature", "rule", "outline", "scenario", "row")):
        if x.eid in anc or x.eid in desc:
            continue
        leaves = [order.index(s.eid) for s in x.scenarios()]
        after_fault = bool(leaves) and min(leaves) > first_inside
        if stop and after_fault:
            # --stop still stops at the first failure: nothing after the failing element runs
            sx.check(not any(c[0] in {s.eid for s in x.scenarios()} for c in w2.calls), "C12.stop-after-hook-failure",
                     detail=lambda m, x=x: dict(det(m), elem=x.eid))
            continue
        if x.kind in ("feature", "rule", "outline") and any(d in _descendants(x) for d in (e.eid,)):
            continue
        sx.check(st2[x.eid] == st1[x.eid], "C12.others-unaffected", detail=lambda m, x=x: dict(det(m), elem=x.eid, owner=owner))
        if x.kind in ("scenario", "row"):
            sx.check(steps2[x.eid] == steps1[x.eid], "C12.others-unaffected(steps)", detail=lambda m, x=x: dict(det(m), elem=x.eid))
    return obs


REACH = ["C12.nested-order(fault-free)", "C12.hook-fault-fails-run", "C12.after-hook-paired",
         "C12.exactly-the-element-concerned", "C12.others-unaffected"]


def jobs(tier, seed):
    js = []
    D = {"*": [0, 2]}
    shapes = {
        # (tag names that contain hook-name words: the runner must dispatch on the hook, never on the tag text)
        "tags3": ([F([S(1, tags=["small"]), S(2, tags=["stepwise", "tagged"])], tags=["featured"])], {"stop": "sym", "out_dom": D}),
        "rule": ([F([S(1), R([S(1, tags=["scenario_x"])], tags=["ruler"]), R([S(1)])], tags=["t0"])], {"stop": "sym", "out_dom": D}),
        "outline": ([F([O(1, [(2, ["te"])], tags=["to"]), S(1)])], {"stop": "sym", "out_dom": D}),
        "2feat": ([F([S(1, tags=["t1"])], tags=["t0"]), F([S(1)])], {"stop": "sym", "dry_run": "sym", "out_dom": D}),
        "select": ([F([S(1, tags=["t1"]), S(1), R([S(1)], tags=["tr"])])], {"select": True, "out_dom": {"*": [0, 1]}}),
        # a before_feature hook marks a later scenario as skipped: none of that scenario's hooks run
        "pre-skip": ([F([S(1), S(1, tags=["t1"]), S(1)], tags=["t0"])], {"out_dom": {"*": [0, 1]}, "undef": False, "feature_hook_skips_later_scenario": True}),
        # selection that reaches rows only through the tag of an Examples table: the enclosing hooks still run
        "select-examples": ([F([O(1, [(1, []), (1, [])])], tags=["t0"])], {"select": True, "out_dom": {"*": [0, 1]}, "undef": False}),
        "skipstep": ([F([S(2, tags=["t1"]), S(1)])], {"out_dom": {"*": [5, 6]}}),
        "hook-skip": ([F([S(1, tags=["t1"]), R([S(1)], tags=["tr"])], tags=["t0"])], {"out_dom": {"*": [0, 1]}, "undef": False, "hook_skip_scenario": True}),
    }
    if tier == "thorough":
        shapes.update({
            "rule-outline": ([F([S(1), R([O(1, [(2, ["te"]), (1, [])], tags=["to"]), S(1)], tags=["tr"], bg=1)], tags=["t0"], bg=1)],
                             {"stop": "sym", "out_dom": D}),
            "3sc": ([F([S(2, tags=["a"]), S(2), S(1, tags=["b", "c"])], tags=["t0"]), F([S(1)], tags=["t9"])], {"stop": "sym", "out_dom": D}),
            "select2": ([F([S(1, tags=["t1"]), O(1, [(1, []), (1, [])]), R([S(1)], tags=["tr"])]), F([S(1)])],
                        {"select": True, "stop": "sym", "out_dom": {"*": [0, 1]}}),
        })
    for name, (sh, opts) in shapes.items():
        if name in ("rule-outline", "3sc", "select2"):
            for stop in (False, True):
                cuts = [8, 16, 24, 32] if name != "rule-outline" else [6, 12, 18, 24, 30, 36, 42, 48, 54]
                for ri, rng in enumerate(zip([None] + cuts, cuts + [None])):
                    js.append(Job("hooks.%s.stop%d.k%d" % (name, stop, ri), "props.c12:h_hooks",
                                  {"shapes": sh, "opts": dict(opts, stop=stop, out_dom={"*": [0, 1]}, undef=False), "fault_range": rng},
                                  reach=REACH if (ri == 0 and not stop) else [], min_paths=15 if ri == 0 else 1, cost=1000, validate=200))
            continue
        js.append(Job("hooks.%s" % name, "props.c12:h_hooks", {"shapes": sh, "opts": opts},
                      reach=REACH if name not in ("skipstep",) else REACH[:3], min_paths=15, cost=100,
                      validate=120 if tier == "quick" else 2000))
    if tier == "thorough":
        js.append(Job("hooks.pairs", "props.c12:h_hooks",
                      {"shapes": [F([S(1, tags=["t1"]), R([S(1)], tags=["tr"])], tags=["t0"])],
                       "opts": {"out_dom": {"*": [0, 1]}}, "two_faults": True},
                      reach=["C12.after-hook-paired", "C12.hook-fault-fails-run"], min_paths=50, cost=1000, validate=2000))
    return js
