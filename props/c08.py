"""C08 - v1 tag expressions keep their meaning; dialect auto-detection never misreads."""
import z3

import symx
from vlib.runner import Job
from vlib import tagspec as T
from props.c07 import tagset, UNIVERSE, render, RENDERINGS, OPERANDS

CALL_PROFILE = ["cucumber_tag_expressions.model", "behave.tag_expression.v1", "behave.tag_expression.model"]

META = {
    "functions": ["behave.tag_expression.v1.TagExpression.__init__/normalize_tag/normalized_tags_from_or/store_and_extract_limits/check",
                  "behave.tag_expression.builder._select_tag_expression_parser4auto/_any_word_*/_parse_tag_expression_v1/_parse_tag_expression_v2",
                  "behave.tag_expression.builder.TagExpressionProtocol.parse/make_tag_expression"],
    "bounds": {
        "quick": "CNF shapes 1..3 groups x 1..2 alternatives (<=4 literals), every literal with each of the 6 prefixes ('', @, -, ~, -@, ~@) "
                 "and optional :limit, as argument list and as one string, protocols v1 and auto_detect; all subsets of the 14-tag universe "
                 "(z3 Booleans); v2 trees (30) x 6 renderings under auto_detect; mixed texts: every operand position of 40 v2 renderings x 4 prefixes",
        "thorough": "shapes with up to 4 literals (limits only up to 3 literals), 120 v2 trees, mixed texts from 200 renderings",
    },
    "outside": ["tag names that are themselves the words and/or/not", "unbounded symbolic tag text"],
    "assumptions": [],
    "leverage": "data-symbolic: tag membership Booleans; texts enumerated by solver-driven choice",
}

PREFIXES = ["", "@", "-", "~", "-@", "~@"]
NAMES = ["a", "b.c", "x-y=1", "zzz", "A", "ax"]
# tag names containing a v2 keyword as a substring (auto-detection must test whole words, not substrings)
KW_NAMES = ["band", "nor", "knot", "a"]
KW_UNIVERSE = ["band", "nor", "knot", "a", "and", "b"]


def h_v1(sx):
    from behave.tag_expression.builder import make_tag_expression, TagExpressionProtocol
    shape = sx.params["shape"]       # list of group sizes
    form = sx.params["form"]         # "list" | "string"
    proto = TagExpressionProtocol.V1 if sx.params["protocol"] == "v1" else TagExpressionProtocol.AUTO_DETECT
    groups = []
    texts = []
    k = 0
    for gi, size in enumerate(shape):
        g = []
        parts = []
        for li in range(size):
            names = sx.params.get("names") or (KW_NAMES if sx.params.get("kw_names") else NAMES)
            name = names[k % len(names)]
            k += 1
            p = sx.choice("prefix:%d:%d" % (gi, li), sx.params.get("prefixes") or list(range(len(PREFIXES))))
            p = p if isinstance(p, int) else p.concretize()
            lim = sx.choice("limit:%d:%d" % (gi, li), [0, 1]) if sx.params.get("limits", True) else 0
            lim = lim if isinstance(lim, int) else lim.concretize()
            prefix = PREFIXES[p]
            g.append((prefix.startswith("-") or prefix.startswith("~"), name))
            parts.append(prefix + name + (":3" if lim else ""))
        groups.append(g)
        sep = ","
        if sx.params.get("comma_padding") and form == "list" and len(parts) > 1:
            # blanks next to the comma inside one argument (--tags="@a, -@b") do not change the meaning
            sep = sx.choice("sep:%d" % gi, [",", ", ", " ,", " , "])
            sep = sep if isinstance(sep, str) else sep.concretize()
        texts.append(sep.join(parts))
    arg = texts if form == "list" else " ".join(texts)
    universe = KW_UNIVERSE if sx.params.get("kw_names") else UNIVERSE
    tags, member = tagset(sx, universe)
    spec = T.cnf_formula(groups, member)
    try:
        expr = make_tag_expression(arg, proto)
    except Exception as e:      # noqa
        sx.check(False, "C08.pure-v1-accepted", detail={"arg": arg, "protocol": proto.name, "error": repr(e)})
        return {"arg": arg, "error": repr(e)}
    r = bool(expr.check(tags))
    det = lambda m: {"arg": arg, "protocol": proto.name, "impl": r, "parsed_as": type(expr).__module__,
                     "tags": [t for t in universe if (sx.eval(sx.bool("has:" + t), m) if m is not None else sx.bool("has:" + t))]}
    # known finding C08-F13: ONE unprefixed tag with a :limit suffix under auto_detect is read as the v2 literal "a:3"
    f13 = (proto is TagExpressionProtocol.AUTO_DETECT and sum(shape) == 1 and texts[0].lstrip("@").endswith(":3")
           and not groups[0][0][0])
    sx.check(spec if r else z3.Not(spec), "C08.v1-meaning(AND of OR, -/~ negate, @ optional)", detail=det,
             known=[("C08-F13", f13)])
    return {"arg": arg, "result": r}


def mixed_texts(trees, per_tree=6):
    out = []
    for tree in trees:
        ops = T.operands(tree)
        has_v2 = tree[0] in ("and", "or", "not") or any(o[0] == "wild" for o in ops)
        if not has_v2:
            continue
        for how in ("min", "at", "allparens"):
            text = render(tree, how)
            for o in ops[:2]:
                name = o[1]
                import re
                token = ("@" if how == "at" else "") + name
                mm = re.search(r"(?<![\w.@=\[\]*?-])" + re.escape(token) + r"(?![\w.=\[\]*?-])", text)
                if not mm:
                    continue
                idx = mm.start()
                for pfx in ("-", "~"):
                    out.append(text[:idx] + pfx + token + text[idx + len(token):])
    # de-duplicate, keep order
    seen = set()
    res = []
    for t in out:
        if t not in seen:
            seen.add(t)
            res.append(t)
    return res


def h_mixed(sx):
    from behave.tag_expression.builder import make_tag_expression, TagExpressionProtocol
    from behave.tag_expression.parser import TagExpressionError
    texts = sx.params["texts"]
    i = sx.choice("text", list(range(len(texts))))
    i = i if isinstance(i, int) else i.concretize()
    text = texts[i]
    aslist = sx.choice("aslist", [0, 1])
    aslist = aslist if isinstance(aslist, int) else aslist.concretize()
    arg = [text] if aslist else text
    try:
        e = make_tag_expression(arg, TagExpressionProtocol.AUTO_DETECT)
        sx.check(False, "C08.mixed-dialects-rejected", detail={"text": arg, "accepted_as": repr(e)})
        return {"text": text, "accepted": repr(e)}
    except TagExpressionError:
        sx.check(True, "C08.mixed-dialects-rejected")
        return {"text": text, "rejected": True}
    except Exception as ex:     # noqa
        sx.check(False, "C08.mixed-dialects-rejected", detail={"text": arg, "wrong_error_type": repr(ex)})
        return {"text": text, "error": repr(ex)}


def h_config_history(sx):
    """Two configurations in one process: the tag-expression protocol chosen by the first one (config file option
    tag_expression_protocol) must not leak into the second one, which uses the default (auto-detection)."""
    from behave.tag_expression.builder import TagExpressionProtocol
    from behave.tag_expression.parser import TagExpressionError
    from vlib.world import base_config
    protos = {"v1": TagExpressionProtocol.V1, "v2": TagExpressionProtocol.V2, "auto": TagExpressionProtocol.AUTO_DETECT}
    first = sx.choice("first_protocol", ["v1", "v2", "auto"])
    first = first if isinstance(first, str) else first.concretize()
    second = [("(a or b.c) and not x", ["and", ["or", ["lit", "a"], ["lit", "b.c"]], ["not", ["lit", "x"]]]),
              (["a,b.c", "-x"], ["and", ["or", ["lit", "a"], ["lit", "b.c"]], ["not", ["lit", "x"]]]),
              ("not a", ["not", ["lit", "a"]]), ("~@a", ["not", ["lit", "a"]]), ("-a and b.c", None)]
    k = sx.choice("second_text", list(range(len(second))))
    k = k if isinstance(k, int) else k.concretize()
    text, tree = second[k]
    tags, member = tagset(sx, UNIVERSE)
    try:
        cfg1 = base_config(("--no-summary",))
        cfg1.tag_expression_protocol = protos[first]
        cfg1.tags = ["a"] if first != "v2" else ["a and zzz"]
        cfg1.setup_tag_expression()
        cfg2 = base_config(("--no-summary",))
        sx.check(cfg2.tag_expression_protocol is TagExpressionProtocol.DEFAULT, "C08.default-protocol-is-auto-detect",
                 detail={"protocol": str(cfg2.tag_expression_protocol)})
        cfg2.tags = list(text) if isinstance(text, list) else [text]      # --tags is an append option
        det = lambda m: {"first_protocol": first, "second": text,
                         "tags": [t for t in UNIVERSE if (sx.eval(sx.bool("has:" + t), m) if m is not None else sx.bool("has:" + t))]}
        try:
            cfg2.setup_tag_expression()
        except TagExpressionError as e:
            sx.check(tree is None, "C08.earlier-configuration-does-not-change-dialect", detail=lambda m: dict(det(m), error=str(e)[:120]))
            return {"first": first, "second": text, "rejected": True}
        if tree is None:
            sx.check(False, "C08.mixed-dialects-rejected", detail=lambda m: dict(det(m), accepted_as=repr(cfg2.tag_expression)))
            return {"first": first, "second": text, "accepted": True}
        r = bool(cfg2.tag_expression.check(tags))
        spec = T.formula(tree, member, UNIVERSE)
        sx.check(spec if r else z3.Not(spec), "C08.earlier-configuration-does-not-change-dialect",
                 detail=lambda m: dict(det(m), impl=r, parsed_as=type(cfg2.tag_expression).__module__))
        return {"first": first, "second": text, "result": r}
    finally:
        TagExpressionProtocol.use(TagExpressionProtocol.DEFAULT)


def jobs(tier, seed):
    from props.c07 import trees_for
    js = []
    shapes = [[1], [2], [1, 1], [2, 1], [1, 2], [1, 1, 1]] if tier == "quick" else \
             [[1], [2], [3], [1, 1], [2, 1], [1, 2], [2, 2], [1, 1, 1], [2, 1, 1], [3, 1]]
    for sh in shapes:
        for form in ("list", "string"):
            for proto in ("v1", "auto"):
                js.append(Job("v1.%s.%s.%s" % ("x".join(map(str, sh)), form, proto), "props.c08:h_v1",
                              {"shape": sh, "form": form, "protocol": proto, "limits": sum(sh) <= 3},
                              reach=["C08.v1-meaning(AND of OR, -/~ negate, @ optional)"], min_paths=10,
                              cost=12 ** sum(sh), validate=40, closure=False))
    for sh in ([2], [1, 1], [2, 1]):
        for form in ("list", "string"):
            js.append(Job("v1kw.%s.%s.auto" % ("x".join(map(str, sh)), form), "props.c08:h_v1",
                          {"shape": sh, "form": form, "protocol": "auto", "limits": False, "kw_names": True},
                          reach=["C08.v1-meaning(AND of OR, -/~ negate, @ optional)"], min_paths=10,
                          cost=6 ** sum(sh), validate=40, closure=False))
    # the same tag in several groups (and with the same :limit more than once)
    for form in ("list", "string"):
        js.append(Job("v1rep.2x2.%s.v1" % form, "props.c08:h_v1",
                      {"shape": [2, 2], "form": form, "protocol": "v1", "limits": True, "names": ["a", "b.c", "zzz", "a"], "prefixes": [0, 2]},
                      reach=["C08.v1-meaning(AND of OR, -/~ negate, @ optional)"], min_paths=10, cost=4 ** 4, validate=40, closure=False))
    for sh in ([2], [2, 1]):
        for proto in ("v1", "auto"):
            js.append(Job("v1pad.%s.%s" % ("x".join(map(str, sh)), proto), "props.c08:h_v1",
                          {"shape": sh, "form": "list", "protocol": proto, "limits": False, "comma_padding": True},
                          reach=["C08.v1-meaning(AND of OR, -/~ negate, @ optional)"], min_paths=10, cost=4 * 6 ** sum(sh), validate=40, closure=False))
    # the same tag plain and negated inside one group ("@a,-@a" is always true; "-@a,@b,@a" likewise)
    for sh, names in (([2], ["a", "a"]), ([3], ["a", "b.c", "a"]), ([2, 1], ["a", "a", "b.c"]), ([1, 1], ["a", "a"]), ([1, 1, 1], ["a", "b.c", "a"])):
        for form in ("list", "string"):
            js.append(Job("v1same.%s.%s.v1" % ("x".join(map(str, sh)), form), "props.c08:h_v1",
                          {"shape": sh, "form": form, "protocol": "v1", "limits": False, "names": names, "prefixes": [0, 2, 5]},
                          reach=["C08.v1-meaning(AND of OR, -/~ negate, @ optional)"], min_paths=8, cost=3 ** sum(sh) * 10, validate=40, closure=False))
    # a later group whose tags all occur in an earlier group still narrows the selection
    for form in ("list", "string"):
        js.append(Job("v1rep.2x1.%s.v1" % form, "props.c08:h_v1",
                      {"shape": [2, 1], "form": form, "protocol": "v1", "limits": False, "names": ["a", "b.c", "a"], "prefixes": [0, 2]},
                      reach=["C08.v1-meaning(AND of OR, -/~ negate, @ optional)"], min_paths=8, cost=4 ** 3, validate=40, closure=False))
        js.append(Job("v1rep.1x2.%s.v1" % form, "props.c08:h_v1",
                      {"shape": [1, 2], "form": form, "protocol": "v1", "limits": False, "names": ["a", "b.c", "a"], "prefixes": [0, 2]},
                      reach=["C08.v1-meaning(AND of OR, -/~ negate, @ optional)"], min_paths=8, cost=4 ** 3, validate=40, closure=False))
    js.append(Job("config-history", "props.c08:h_config_history", {},
                  reach=["C08.earlier-configuration-does-not-change-dialect"], min_paths=10, cost=50, validate=40, closure=False))
    trees = trees_for(tier, seed)
    n2 = 30 if tier == "quick" else 120
    step = max(1, len(trees) // n2)
    sel = trees[::step][:n2]
    for k in range(0, len(sel), 15):
        js.append(Job("v2auto.%02d" % (k // 15), "props.c07:h_v2", {"trees": sel[k:k + 15], "protocol": "auto"},
                      reach=["C07.check==formula"], min_paths=10, cost=300, validate=40, closure=False))
    mt = mixed_texts(trees[:40] if tier == "quick" else trees[:200])
    for k in range(0, len(mt), 80):
        js.append(Job("mixed.%02d" % (k // 80), "props.c08:h_mixed", {"texts": mt[k:k + 80]},
                      reach=["C08.mixed-dialects-rejected"], min_paths=10, cost=100, validate="all", closure=False))
    return js
