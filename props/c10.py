"""C10 - file-location and name selection pick exactly the addressed scenarios."""
import os
import shutil
import tempfile

import z3

import symx
from symx import SymInt
from vlib.runner import Job
from vlib.shapes import F, S, O, R, render_feature

CALL_PROFILE = ["behave.runner_util"]

META = {
    "functions": ["behave.runner_util.FeatureLineDatabase.make_line_data_for/select_run_item_by_line/select_scenarios_by_line",
                  "behave.runner_util.FeatureScenarioLocationCollector(2).add_location/clear/discover_selected_scenarios/build_feature",
                  "behave.runner_util.parse_features/collect_feature_locations", "behave.runner_util.FeatureListParser.parse/parse_file, FileLocationParser.parse",
                  "behave.model.Scenario.mark_skipped/should_run_with_name_select, ScenarioOutline.should_run_with_name_select", "behave.configuration.Configuration.build_name_re"],
    "bounds": {"quick": "kernel: query line an unconstrained z3 integer on 4 rendered documents (feature/rule/outline with rows, tags and blank lines between); "
                        "files: every line 0..EOF+2 and 'bare file' for single locations, all ordered pairs on 2 documents, two files with every "
                        "(bare|line) combination of a small line set, @listfile with comments/blank lines/relative paths; name selection: 9 patterns x 2 shapes",
               "thorough": "6 documents, pairs on all, triples on one"},
    "outside": ["FileLocationParser regex on unbounded symbolic text (pool only)", "directory walks"],
    "assumptions": ["entities = feature, rules, outlines, examples rows, scenarios (lines taken from the renderer)"],
    "leverage": "data-symbolic kernel: one unconstrained integer covers negative, 0, every gap and beyond-EOF lines; wrapper explored per line by solver-driven enumeration",
}

DOCS = {
    "plain": F([S(1), S(2), S(1)], tags=["ft"]),
    "rule": F([S(1), R([S(1), S(1)], tags=["rt"]), R([S(1)])]),
    "outline": F([S(1), O(1, [(2, ["e1"]), (1, [])]), S(1, tags=["setup"])]),
    "rule-outline": F([S(1, tags=["teardown"]), R([O(1, [(1, []), (2, [])]), S(1)])]),
    "empty-examples": F([S(1), O(1, [(2, []), (0, [])]), S(1)]),       # second Examples table is header-only
    # addressable entities that own no scenario at all: an outline with a header-only Examples table, a Rule without scenarios
    "childless": F([S(1), O(1, [(0, [])]), R([]), R([S(1)])]),
    "two-scenarios": F([S(1), S(1)]),
    "with-stepless": F([S(1), S(0), S(1), R([S(0), S(1)])]),
    "rules-only": F([R([S(1), O(1, [(2, [])])], tags=["r1"]), R([S(1)])]),
    # @setup/@teardown exempt only the scenario that carries the tag itself, not what inherits it from a feature or rule
    "inherited-setup": F([S(1), S(1, tags=["setup"]), R([S(1), S(1)], tags=["setup"])], tags=["teardown"]),      # nothing directly under the feature
    "same-names": F([S(1, name="Same"), R([S(1, name="Same"), O(1, [(1, [])], name="Tmpl")]), R([O(1, [(1, [])], name="Tmpl"), S(1, name="Same")])]),
}


def entities(rd):
    """[(line, elem)] sorted - feature, rules, outlines, rows, scenarios."""
    ents = [(e.line, e) for e in rd.by_id.values() if e.kind in ("feature", "rule", "outline", "row", "scenario")]
    return sorted(ents, key=lambda t: t[0])


def select_formula(rd, line):
    """z3: for every leaf scenario, whether file:line selects it."""
    ents = entities(rd)
    fe = rd.features[0]
    out = {}
    for s in fe.scenarios():
        out[s.eid] = []
    for i, (ln, e) in enumerate(ents):
        nxt = ents[i + 1][0] if i + 1 < len(ents) else None
        if i == 0:
            cond = (line < nxt) if nxt is not None else z3.BoolVal(True)     # everything up to the 2nd entity -> the feature
        else:
            cond = z3.And(line >= ln, line < nxt) if nxt is not None else (line >= ln)
        for s in e.scenarios():
            out[s.eid].append(cond)
    return {k: z3.Or(v) for k, v in out.items()}


def h_kernel(sx):
    from behave.parser import parse_feature
    from behave.runner_util import FeatureLineDatabase
    rd = render_feature(DOCS[sx.params["doc"]], 0, blank=sx.params.get("blank", 1))
    feature = parse_feature(rd.text, filename=rd.filename)
    line = sx.int("line")
    db = FeatureLineDatabase.make(feature)
    got = db.select_scenarios_by_line(line)
    names = sorted(s.name for s in got)
    lz = line.e if isinstance(line, SymInt) else z3.IntVal(line)
    form = select_formula(rd, lz)
    # map leaf elems to model scenario names
    by_name = {}
    for e in rd.features[0].scenarios():
        by_name[e.eid] = e
    got_ids = set()
    for s in got:
        base = s.name.split(" -- ")[0]
        if " -- @" in s.name:
            # outline row: name "<outline id> -- @<block>.<row> <examples id>"
            blk, row = s.name.split(" -- @")[1].split(" ")[0].split(".")
            got_ids.add("%s.e%d.r%d" % (base, int(blk) - 1, int(row) - 1))
        else:
            got_ids.add(base)
    conj = z3.And([(f if eid in got_ids else z3.Not(f)) for eid, f in form.items()])
    sx.check(conj, "C10.kernel.selected==entity-at-or-nearest-above", detail=lambda m: {
        "doc": sx.params["doc"], "line": sx.eval(line, m) if m is not None else line, "selected": sorted(got_ids),
        "entities": [(ln, e.eid) for ln, e in entities(rd)]})
    return sorted(got_ids)


def _write(tmp, name, text):
    path = os.path.join(tmp, name)
    os.makedirs(os.path.dirname(path), exist_ok=True)
    with open(path, "w") as f:
        f.write(text)
    return path


def _expected(rd, lines):
    """lines: list of ints or None (bare).  Union of selections; bare/0 = all; setup/teardown never skipped."""
    leaf = rd.features[0].scenarios()
    if any(l is None or l == 0 for l in lines):
        return {s.eid for s in leaf}
    sel = set()
    for l in lines:
        form = select_formula(rd, z3.IntVal(l))
        sel |= {eid for eid, f in form.items() if z3.is_true(z3.simplify(f))}
    for s in leaf:
        if "setup" in s.tags or "teardown" in s.tags:
            sel.add(s.eid)
    return sel


def _observed(feature, rd):
    from behave.model import ScenarioOutline
    out = set()
    leaf = rd.features[0].scenarios()
    objs = feature.walk_scenarios()
    assert len(objs) == len(leaf), (objs, leaf)
    for o, e in zip(objs, leaf):
        if not o.should_skip:
            out.add(e.eid)
    return out


def h_files(sx):
    """parse_features()/collect_feature_locations() on real files, lines enumerated by the solver."""
    from behave.runner_util import parse_features, collect_feature_locations
    from behave.model_core import FileLocation
    p = sx.params
    docs = p["docs"]
    rds = [render_feature(DOCS[d], i, blank=1) for i, d in enumerate(docs)]
    nl = [len(rd.lines) for rd in rds]
    # locations: list of (file index, line) ; line -1 = bare file name
    locs = []
    for k, fi in enumerate(p["pattern"]):
        if p.get("small_lines"):
            pool = [-1, 0] + sorted({ln for ln, _ in entities(rds[fi])})[1:4] + [nl[fi] + 2]
            c = sx.choice("loc%d" % k, pool)
            v = c if isinstance(c, int) else c.concretize()
        else:
            x = sx.int("loc%d" % k, -1, nl[fi] + 2)
            v = sx.concretize_int(x, -1, nl[fi] + 2)
        locs.append((fi, None if v == -1 else v))
    tmp = tempfile.mkdtemp(prefix="c10-")
    cwd = os.getcwd()
    try:
        os.chdir(tmp)
        for rd in rds:
            _write(tmp, "features/" + rd.filename, rd.text)
        args = ["features/%s" % rds[fi].filename + ("" if ln is None else ":%d" % ln) for fi, ln in locs]
        if p.get("listfile"):
            body = ["# a comment", ""] + ["  " + a.replace("features/", "") + "  " for a in args] + \
                   ["", "   # %s (disabled)" % args[0].replace("features/", ""), "\t#indented", "# end"]
            _write(tmp, "features/list.txt", "\n".join(body) + "\n")
            locations = collect_feature_locations(["@features/list.txt"])
        else:
            locations = collect_feature_locations(args)
        feats = parse_features(locations)
        err = None
    except Exception as e:      # noqa
        feats, err = [], repr(e).replace(tmp, "<tmp>")
    finally:
        os.chdir(cwd)
        shutil.rmtree(tmp, ignore_errors=True)
    if err is not None:
        sx.check(False, "C10.files.locations-are-collected-and-parsed", detail={"args": args, "listfile": bool(p.get("listfile")), "error": err})
        return [err]
    # expected per file: consecutive locations of the same file are grouped
    groups = []
    for fi, ln in locs:
        if groups and groups[-1][0] == fi:
            groups[-1][1].append(ln)
        else:
            groups.append((fi, [ln]))
    det = lambda m: {"args": args, "groups": groups}
    sx.check(len(feats) == len(groups), "C10.files.one-feature-per-location-group", detail=det)
    obs = []
    for (fi, lines), f in zip(groups, feats):
        exp = _expected(rds[fi], lines)
        got = _observed(f, rds[fi])
        obs.append(sorted(got))
        if p.get("run"):
            # ... and a run of the selected feature leaves every unaddressed scenario skipped (also one without steps)
            from behave.runner import ModelRunner, Context
            from behave.step_registry import StepRegistry
            from vlib.world import base_config
            reg = StepRegistry()
            reg.add_step_definition("step", u"{anything}", lambda context, anything: None)
            r_ = ModelRunner(base_config(("--no-summary",)), features=[f], step_registry=reg)
            r_.context = Context(r_)
            r_.formatters = []
            try:
                r_.run_model()
                stt = {e.eid: o.status.name for o, e in zip(f.walk_scenarios(), rds[fi].features[0].scenarios())}
            except Exception as ex:     # noqa
                stt = {"<exception>": repr(ex)}
            wrong = {k: v for k, v in stt.items() if (k in exp) != (v != "skipped")}
            sx.check(not wrong, "C10.files.run:addressed-run-others-skipped",
                     detail=lambda m, lines=lines, stt=stt, wrong=wrong: {"args": args, "lines": lines, "statuses": stt, "wrong": wrong})
        sx.check(got == exp, "C10.files.selected==union-of-addressed-entities",
                 detail=lambda m, fi=fi, lines=lines, got=got, exp=exp: {"args": args, "file": docs[fi], "lines": lines, "selected": sorted(got),
                                                                       "expected": sorted(exp), "entities": [(ln, e.eid) for ln, e in entities(rds[fi])]})
    return obs


PATTERNS = ["i0", "f0\\.i1$", "^f0", "@1\\.2", "nomatch", "i0|i2", "e0", "i1 --", "."]


def h_names(sx):
    import re
    from vlib.stage1 import build_world
    w, flags = build_world(sx)
    k = sx.choice("pattern", list(range(len(PATTERNS))))
    k = k if isinstance(k, int) else k.concretize()
    two = sx.choice("second", [None] + list(range(len(PATTERNS))))
    two = two if (two is None or isinstance(two, int)) else two.concretize()
    pats = [PATTERNS[k]] + ([PATTERNS[two]] if two is not None else [])
    w.config.name = list(pats)
    w.config.name_re = w.config.build_name_re(w.config.name)
    w.run()
    sx.check(w.escaped is None, "C10.names.no-exception", detail=lambda m: repr(w.escaped))
    executed = {c[0] for c in w.calls}
    exp = set()
    for e in w.scenario_elems():
        name = e.obj.name
        if any(re.search(pt, name) for pt in pats):
            exp.add(e.eid)
    sx.check(executed == exp, "C10.names.executed==scenarios-matching-a-pattern",
             detail=lambda m: {"patterns": pats, "executed": sorted(executed), "expected": sorted(exp),
                               "names": {e.eid: e.obj.name for e in w.scenario_elems()}})
    st = w.status_table()
    for e in w.scenario_elems():
        if e.eid not in exp:
            sx.check(st[e.eid] == "skipped", "C10.names.others-skipped", detail=lambda m, e=e: {"patterns": pats, "sid": e.eid, "status": st[e.eid]})
    return sorted(executed)


def jobs(tier, seed):
    js = []
    docs = [d for d in DOCS if d != "same-names"]
    js.append(Job("files.single.same-names", "props.c10:h_files", {"docs": ["same-names"], "pattern": [0]},
                  reach=["C10.files.selected==union-of-addressed-entities"], min_paths=10, cost=100, validate=40, closure=False))
    for d in docs:
        for blank in (0, 1):
            js.append(Job("kernel.%s.b%d" % (d, blank), "props.c10:h_kernel", {"doc": d, "blank": blank},
                          reach=["C10.kernel.selected==entity-at-or-nearest-above"], min_paths=3, cost=20, validate="all"))
    for d in docs:
        js.append(Job("files.single.%s" % d, "props.c10:h_files", {"docs": [d], "pattern": [0]},
                      reach=["C10.files.selected==union-of-addressed-entities"], min_paths=10, cost=100, validate=40, closure=False))
    for d in (docs[2:] if tier == "quick" else docs):
        js.append(Job("files.pair.%s" % d, "props.c10:h_files", {"docs": [d], "pattern": [0, 0]},
                      reach=["C10.files.selected==union-of-addressed-entities"], min_paths=100, cost=3000, validate=40, closure=False))
    js.append(Job("files.two-files", "props.c10:h_files", {"docs": ["plain", "outline"], "pattern": [0, 1], "small_lines": True},
                  reach=["C10.files.selected==union-of-addressed-entities"], min_paths=20, cost=500, validate=40, closure=False))
    js.append(Job("files.two-files.interleaved", "props.c10:h_files", {"docs": ["rule", "outline"], "pattern": [0, 0, 1], "small_lines": True},
                  reach=["C10.files.selected==union-of-addressed-entities"], min_paths=50, cost=2000, validate=40, closure=False))
    # the same file named again after another one: each mention keeps its own selection
    js.append(Job("files.two-files.apart", "props.c10:h_files", {"docs": ["rule", "plain"], "pattern": [0, 1, 0], "small_lines": True},
                  reach=["C10.files.selected==union-of-addressed-entities"], min_paths=50, cost=2000, validate=40, closure=False))
    js.append(Job("files.listfile", "props.c10:h_files", {"docs": ["rule", "plain"], "pattern": [0, 1, 1], "small_lines": True, "listfile": True},
                  reach=["C10.files.selected==union-of-addressed-entities"], min_paths=50, cost=2000, validate=40, closure=False))
    js.append(Job("files.run.with-stepless", "props.c10:h_files", {"docs": ["with-stepless"], "pattern": [0], "run": True},
                  reach=["C10.files.run:addressed-run-others-skipped"], min_paths=8, cost=300, validate=40, closure=False))
    # three locations of one small file (overlapping ones included: two lines of one scenario, a rule and one of its scenarios)
    js.append(Job("files.triple.small", "props.c10:h_files", {"docs": ["two-scenarios"], "pattern": [0, 0, 0]},
                  reach=["C10.files.selected==union-of-addressed-entities"], min_paths=100, cost=3000, validate=40, closure=False))
    js.append(Job("files.triple.rule", "props.c10:h_files", {"docs": ["rule"], "pattern": [0, 0, 0], "small_lines": True},
                  reach=["C10.files.selected==union-of-addressed-entities"], min_paths=100, cost=3000, validate=40, closure=False))
    if tier == "thorough":
        js.append(Job("files.triple", "props.c10:h_files", {"docs": ["outline"], "pattern": [0, 0, 0], "small_lines": True},
                      reach=["C10.files.selected==union-of-addressed-entities"], min_paths=100, cost=4000, validate=100, closure=False))
    for nm, sh in (("plain", [F([S(1), S(1), S(1)])]), ("outline", [F([S(1), O(1, [(2, []), (1, [])]), R([S(1)])])])):
        js.append(Job("names.%s" % nm, "props.c10:h_names", {"shapes": sh, "opts": {"out_dom": {"*": [0, 1]}, "undef": False}},
                      reach=["C10.names.executed==scenarios-matching-a-pattern"], min_paths=20, cost=500, validate=40, closure=False))
    return js
