"""C17 - rerun file lists exactly the unsuccessful scenarios; fed back it selects them."""
import os
import shutil
import tempfile

from vlib.runner import Job
from vlib.shapes import F, S, O, R
from vlib.stage1 import build_world

CALL_PROFILE = []

META = {
    "functions": ["behave.formatter.rerun.RerunFormatter.feature/eof/close/report_scenario_failures", "behave.formatter.base.StreamOpener",
                  "behave.runner_util.collect_feature_locations/FeatureListParser/FileLocationParser/parse_features (closed loop)",
                  "behave.model.*.run (formatter events feature/eof/close)"],
    "bounds": {"quick": "10 shapes (two feature files, also named against sort order; scenarios inside/outside rules; outline rows, empty examples; rules only; equal names; a feature that is never started), outcomes over "
                        "{pass, assert-fail, exception} + undefined steps, --stop symbolic, three jobs with hook faults (k over Z; hooks that read scenario.status first; a hook skipping its scenario); closed loop "
                        "run -> rerun file -> collect_feature_locations('@rerun.txt') -> parse_features on scratch files",
               "thorough": "6 shapes, outcomes incl. pending and skip-scenario, selection symbolic"},
    "outside": ["show_timestamp / description comment sections", "a second complete run with outcomes (selection by parse_features is checked instead)"],
    "assumptions": [],
    "leverage": "path space by solver (outcomes/flags/fault position symbolic), report compared concretely per path",
}

ERRORLIKE = ("failed", "error", "hook_error", "cleanup_error", "undefined", "pending")


def h_rerun(sx):
    from behave.formatter.rerun import RerunFormatter
    from behave.formatter.base import StreamOpener
    from behave.runner_util import collect_feature_locations, parse_features
    tmp = tempfile.mkdtemp(prefix="c17-")
    cwd = os.getcwd()
    try:
        os.chdir(tmp)
        extra = None
        if sx.params.get("opts", {}).get("read_status_in_hooks"):
            from vlib.stage1 import _status_reader
            extra = {"hook_probe": _status_reader}      # the usual "if scenario.status == 'failed': ..." in an after hook
        w, flags = build_world(sx, extra)
        path = os.path.join(tmp, "rerun.txt")
        with open(path, "w") as f:
            f.write("stale.feature:1\n")        # a previous rerun file
        fmt = RerunFormatter(StreamOpener(filename=path), w.config)
        w.runner.formatters = [fmt]
        for rd in w.rendered:
            with open(os.path.join(tmp, rd.filename), "w") as f:
                f.write(rd.text)
        w.run()
        sx.check(w.escaped is None, "C17.no-exception", detail=lambda m: repr(w.escaped))
        if w.escaped is not None:
            return {"escaped": repr(w.escaped)}
        st = w.status_table()
        bad = [e for e in w.scenario_elems() if st[e.eid] in ERRORLIKE]
        # ground truth of the harness' own hooks: a scenario one of whose hooks raised did not end successfully
        for e in w.scenario_elems():
            if any(str(f[3]).split("/")[0] == e.eid and "step" not in f[1] for f in w.fault_fired):
                sx.check(st[e.eid] in ERRORLIKE, "C17.scenario-with-raising-hook-is-unsuccessful",
                         detail=lambda m, e=e: {"scenario": e.eid, "status": st[e.eid], "fired": [list(map(str, f)) for f in w.fault_fired]})
        exists = os.path.exists(path)
        content = open(path).read() if exists else None
        listed = [l.strip() for l in (content or "").splitlines() if l.strip() and not l.startswith("#")]
        expected = ["%s:%d" % (e.obj.location.filename, e.obj.line) for e in bad]

        def det(m):
            return {"status": st, "listed": listed, "expected": expected, "file_exists": exists,
                    "flags": {k: (sx.eval(v, m) if m is not None else bool(v)) for k, v in flags.items()}}
        if not bad:
            sx.check(not exists, "C17.stale-rerun-file-removed-when-nothing-failed", detail=det)
            return {"listed": None, "status": st}
        sx.check(exists, "C17.rerun-file-written", detail=det)
        sx.check(listed == expected, "C17.lists-exactly-failed-and-errored-in-run-order", detail=det)
        # closed loop: feeding the file back selects exactly those scenarios
        if exists and listed:
            locations = collect_feature_locations(["@" + path])
            feats = parse_features(locations)
            selected = []
            for f in feats:
                for sc in f.walk_scenarios():
                    if not sc.should_skip:
                        selected.append("%s:%d" % (os.path.basename(sc.location.filename), sc.line))
            sx.check(sorted(selected) == sorted(os.path.basename(x) for x in listed), "C17.fed-back-selects-exactly-the-listed-scenarios",
                     detail=lambda m: dict(det(m), selected=selected))
            # ... and the second run itself skips all others (also scenarios without steps)
            from behave.runner import ModelRunner, Context
            r2 = ModelRunner(w.config, features=feats, step_registry=w.runner.step_registry)
            r2.context = Context(r2)
            r2.formatters = []
            w.opts["out_dom"] = {"*": [0, 0]}       # (what the steps of the second run do is of no interest here: they pass)
            try:
                r2.run_model()
                second = {"%s:%d" % (os.path.basename(sc.location.filename), sc.line): sc.status.name for f in feats for sc in f.walk_scenarios()}
            except Exception as e:      # noqa
                second = {"<exception>": repr(e)}
            names = [os.path.basename(x) for x in listed]
            wrong = {k: v for k, v in second.items() if k not in names and v != "skipped"}
            sx.check(not wrong, "C17.second-run-skips-all-others", detail=lambda m: dict(det(m), second_run=second, not_skipped=wrong))
        return {"listed": listed, "status": st}
    finally:
        os.chdir(cwd)
        shutil.rmtree(tmp, ignore_errors=True)


REACH = ["C17.lists-exactly-failed-and-errored-in-run-order", "C17.fed-back-selects-exactly-the-listed-scenarios",
         "C17.stale-rerun-file-removed-when-nothing-failed"]


def jobs(tier, seed):
    js = []
    D = {"*": [0, 2]}
    shapes = {
        "two-files": ([F([S(1), S(1)]), F([S(1)])], {"stop": "sym", "out_dom": D}),
        "two-files-unsorted": ([F([S(1), S(1)]), F([S(1)])], {"out_dom": D, "filenames": ["zeta.feature", "alpha.feature"]}),
        "rules": ([F([S(1), R([S(1), S(1)]), R([S(1)])])], {"out_dom": D}),
        "rules-only": ([F([R([S(1), O(1, [(2, [])])]), R([S(1)])])], {"out_dom": D}),       # no scenario directly under the feature
        "outline": ([F([O(1, [(2, []), (1, [])]), S(1)])], {"stop": "sym", "out_dom": D}),
        "outline-empty-examples": ([F([O(1, [(2, []), (0, [])]), S(1)])], {"out_dom": D}),
        "same-names": ([F([S(1, name="Happy path"), R([S(1, name="Happy path"), S(1)]), R([O(1, [(1, [])], name="Happy path")]),
                           R([O(1, [(1, [])], name="Happy path")])])], {"out_dom": {"*": [0, 1]}}),
        # two files with the same layout: a line number listed for the first file is the line of a passing scenario in the second
        "two-files-same-layout": ([F([S(1), S(1)]), F([S(1), S(1)])], {"out_dom": {"*": [0, 1]}, "undef": False}),
        # scenarios without steps next to failing ones
        "stepless": ([F([S(1), S(0), S(1)]), F([S(0), S(1)])], {"out_dom": {"*": [0, 2]}, "undef": False}),
        # @setup/@teardown exempt only a scenario that carries the tag itself, not what inherits it
        "inherited-teardown": ([F([S(1), S(1), R([S(1), S(1)], tags=["setup"])], tags=["teardown"])], {"out_dom": {"*": [0, 1]}, "undef": False}),
        # a rule whose before-hook raises leaves its scenarios untested; failures in a LATER rule are listed all the same
        "hookfault-rules": ([F([R([S(1)], tags=["ra"]), R([S(1), S(1)])])], {"hooks": True, "fault": True, "out_dom": {"*": [0, 1]}, "undef": False}),
        # a hook error on an outline row is the file's only failure
        "hookfault-outline": ([F([O(1, [(2, ["te"])]), S(1)])], {"hooks": True, "fault": True, "out_dom": {"*": [0, 1]}, "undef": False}),
        "hookfault-skip": ([F([S(1, tags=["t1"]), S(1)])], {"hooks": True, "fault": True, "hook_skip_scenario": True, "out_dom": {"*": [0, 1]}, "undef": False}),
        "hookfault": ([F([S(1, tags=["t1"]), R([S(1)], tags=["tr"])], tags=["t0"])], {"hooks": True, "fault": True, "out_dom": {"*": [0, 1]}}),
        "hookfault-status-read": ([F([S(1, tags=["t1"]), S(1)])], {"hooks": True, "fault": True, "read_status_in_hooks": True, "out_dom": {"*": [0, 1]}}),
    }
    if tier == "thorough":
        shapes.update({
            "rule-outline": ([F([S(1), R([O(1, [(2, [])]), S(1)])]), F([S(2)])], {"stop": "sym", "out_dom": {"*": [0, 5]}}),
            "select": ([F([S(1), O(1, [(1, []), (1, [])]), R([S(1)])])], {"select": True, "out_dom": D}),
        })
    for name, (sh, opts) in shapes.items():
        js.append(Job("rerun.%s" % name, "props.c17:h_rerun", {"shapes": sh, "opts": opts},
                      reach=REACH, min_paths=10, cost=100, validate=60 if tier == "quick" else 500))
    return js
