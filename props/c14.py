"""C14 - summary conservation: every element counted once under its final status."""
import io
import re

import z3

import symx
from vlib.runner import Job
from vlib.shapes import F, S, O, R
from vlib.stage1 import build_world

CALL_PROFILE = []
FORMATS = ["v1", "v1A", "v1B", "v2", "v3"]

META = {
    "functions": ["behave.reporter.summary.SummaryReporterV1.process_feature/process_rule/process_scenario/process_scenario_outline/"
                  "process_run_items_for/print_summary/compute_summary_sums", "behave.reporter.summary.AbstractSummaryReporter.on_scenario/feature/end",
                  "behave.reporter.summary.format_summary_v1/v1A/v1B/v2/v3/format_summary_with_schema",
                  "behave.summary.SummaryCollector.on_feature/on_rule/on_scenario/on_step", "behave.model_visitor.ModelVisitor.visit_*",
                  "behave.summary.StatusCounts", "behave.runner.ModelRunner.run_model (reporter.feature loop, reporter.end)"],
    "bounds": {
        "quick": "stage 1: 6 shapes (C01 family incl. outline, rule, two features) with outcomes over Z, stop/dry-run symbolic, one job with "
                 "hook faults and one with selection; stage 2: one feature (rule + outline rows) with 3 symbolic step statuses over the 11 "
                 "step statuses and symbolic hook flags",
        "thorough": "stage 1: 11 shapes; stage 2: 4 symbolic step statuses",
    },
    "outside": ["SummaryReporterV2 text output (class is not reachable from the configuration: SummaryReporter = SummaryReporterV1)",
                "duration line"],
    "assumptions": ["census = direct walk over the model after the run (features, rules, scenarios incl. outline rows, steps incl. background copies)"],
    "leverage": "finite alphabet / path space: statuses are case-split where counter tables are keyed by status name; numbers are compared concretely per path",
}


def parse_summary(text, fmt):
    """Parse the 3-4 summary lines back into {kind: {status: n, 'all': n|None}}."""
    out = {}
    for line in text.splitlines():
        line = line.strip()
        if not line or line.startswith("Took") or line.endswith("scenarios:") or line.startswith("f") and ".feature" in line:
            continue
        m = None
        if fmt in ("v2", "v3"):
            m = re.match(r"^(\d+)\s+(\w+?)s?\s*\((.*)\)$", line)
            if not m:
                continue
            total, kind, parts = int(m.group(1)), m.group(2), m.group(3)
            counts = {}
            for p in [x for x in parts.split(", ") if x]:
                name, val = p.split(": ")
                counts[name] = int(val)
            out[kind] = dict(counts, all=total)
        elif fmt == "v1":
            parts = line.split(", ")
            m = re.match(r"^(\d+) (\w+?)s? passed$", parts[0])
            if not m:
                continue
            kind = m.group(2)
            counts = {"passed": int(m.group(1))}
            for p in parts[1:]:
                v, name = p.split(" ")
                counts[name] = int(v)
            out[kind] = dict(counts, all=None)
        elif fmt == "v1A":
            parts = line.split(", ")
            m = re.match(r"^(\d+) (\w+?)s?$", parts[0])
            if not m:
                continue
            kind = m.group(2)
            counts = {}
            for p in parts[1:]:
                v, name = p.split(" ")
                counts[name] = int(v)
            out[kind] = dict(counts, all=int(m.group(1)))
        elif fmt == "v1B":
            parts = line.split(", ")
            m = re.match(r"^(\d+) (\w+?)s? passed$", parts[0])
            if not m:
                continue
            kind = m.group(2)
            counts = {"passed": int(m.group(1))}
            for p in parts[1:]:
                v, name = p.split(" ")
                counts[name] = int(v)
            out[kind] = dict(counts, all=None)
    return out


def census(features):
    """Direct census of the model: {kind: {status name: n}} and scenario lists."""
    from behave.model import Rule, ScenarioOutline
    c = {"feature": {}, "rule": {}, "scenario": {}, "step": {}}
    failing, errored = [], []

    def inc(kind, name):
        c[kind][name] = c[kind].get(name, 0) + 1

    def scen(sc):
        inc("scenario", sc.status.name)
        if sc.status.name == "failed":
            failing.append(sc)
        elif sc.status.name in ("error", "hook_error", "cleanup_error", "undefined", "pending"):
            errored.append(sc)
        for st in sc.all_steps:
            inc("step", st.status.name)

    def items(cont):
        for it in cont.run_items:
            if isinstance(it, Rule):
                inc("rule", it.status.name)
                items(it)
            elif isinstance(it, ScenarioOutline):
                for row in it.scenarios:
                    scen(row)
            else:
                scen(it)
    for f in features:
        inc("feature", f.status.name)
        items(f)
    return c, failing, errored


def attach_reporters(cfg):
    from behave.reporter.summary import SummaryReporterV1
    reps = {}
    for fmt in FORMATS:
        r = SummaryReporterV1(cfg)
        r.output_format = fmt
        r.stream = io.StringIO()
        reps[fmt] = r
        cfg.reporters.append(r)
    return reps


def compare(sx, reps, features, det):
    from behave.summary import SummaryCollector
    cen, failing, errored = census(features)
    totals = {k: sum(v.values()) for k, v in cen.items()}
    for fmt, r in reps.items():
        text = r.stream.getvalue()
        parsed = parse_summary(text, fmt)
        for kind in ("feature", "scenario", "step") + (("rule",) if totals["rule"] else ()):
            got = parsed.get(kind)
            sx.check(got is not None, "C14.summary-line-present", detail=lambda m: dict(det(m), fmt=fmt, kind=kind, text=text))
            if got is None:
                continue
            names = set(cen[kind]) | (set(got) - {"all"})
            ok = all(got.get(n, 0) == cen[kind].get(n, 0) for n in names)
            sx.check(ok, "C14.count==census(%s)" % fmt,
                     detail=lambda m, got=got, kind=kind, text=text: dict(det(m), fmt=fmt, kind=kind, printed=got, census=cen[kind], text=text))
            if got.get("all") is not None:
                sx.check(got["all"] == totals[kind], "C14.total==number-of-elements(%s)" % fmt,
                         detail=lambda m, got=got, kind=kind: dict(det(m), fmt=fmt, kind=kind, printed=got, total=totals[kind]))
    # rendering the same reporter again (another stream, every format) prints the same numbers
    rr = reps["v1"]
    for fmt2 in FORMATS:
        buf = io.StringIO()
        rr.output_format = fmt2
        rr.print_summary(buf)
        parsed2 = parse_summary(buf.getvalue(), fmt2)
        for kind in ("feature", "scenario", "step") + (("rule",) if totals["rule"] else ()):
            got = parsed2.get(kind) or {}
            names = set(cen[kind]) | (set(got) - {"all"})
            sx.check(all(got.get(n, 0) == cen[kind].get(n, 0) for n in names) and (got.get("all") is None or got["all"] == totals[kind]),
                     "C14.repeated-rendering-prints-the-same-numbers",
                     detail=lambda m, got=got, kind=kind, fmt2=fmt2: dict(det(m), fmt=fmt2, kind=kind, printed=got, census=cen[kind], total=totals[kind]))
    rr.output_format = "v1"
    r1 = reps["v1"]
    sx.check([id(s) for s in r1.failed_scenarios] == [id(s) for s in failing], "C14.failing-list==failed-scenarios",
             detail=lambda m: dict(det(m), listed=[s.name for s in r1.failed_scenarios], expected=[s.name for s in failing]))
    sx.check([id(s) for s in r1.errored_scenarios] == [id(s) for s in errored], "C14.errored-list==error-class-scenarios",
             detail=lambda m: dict(det(m), listed=[s.name for s in r1.errored_scenarios], expected=[s.name for s in errored]))
    # the collector implementation
    col = SummaryCollector()
    col.visit_many(features)
    sc = col.summary_counts
    for kind, counts in (("feature", sc.features), ("rule", sc.rules), ("scenario", sc.scenarios), ("step", sc.steps)):
        got = {k.name: v for k, v in counts.items() if v}
        sx.check(got == cen[kind], "C14.collector-count==census",
                 detail=lambda m, got=got, kind=kind: dict(det(m), kind=kind, collector=got, census=cen[kind]))
        sx.check(counts.all == totals[kind], "C14.collector-total==number-of-elements")
    sx.check([id(s) for s in col.failed_scenarios] == [id(s) for s in failing], "C14.collector-failing-list",
             detail=lambda m: dict(det(m), listed=[s.name for s in col.failed_scenarios], expected=[s.name for s in failing]))
    return cen


def h_summary_run(sx):
    w, flags = build_world(sx)
    reps = attach_reporters(w.config)
    w.run()
    sx.check(w.escaped is None, "C14.run.no-exception", detail=lambda m: repr(w.escaped))
    if w.escaped is not None:
        return {"escaped": repr(w.escaped)}

    def det(m):
        return {"status": w.status_table(), "steps": w.step_status_table(),
                "flags": {k: (sx.eval(v, m) if m is not None else bool(v)) for k, v in flags.items()}}
    cen = compare(sx, reps, w.features, det)
    # the printed listing: a "Failing scenarios:" and an "Errored scenarios:" section with exactly those scenarios
    for fmt, rep in reps.items():
        text = rep.stream.getvalue()
        listed = {"Failing": [], "Errored": []}
        cur = None
        for line in text.splitlines():
            if line.strip() in ("Failing scenarios:", "Errored scenarios:"):
                cur = line.split()[0]
            elif cur and line.startswith("  ") and line.strip():
                listed[cur].append(line.strip().split("  ")[0])
            else:
                cur = None
        want = {"Failing": [str(s.location) for s in rep.failed_scenarios], "Errored": [str(s.location) for s in rep.errored_scenarios]}
        sx.check(listed == want, "C14.printed-listing==failed-and-errored-scenarios",
                 detail=lambda m, fmt=fmt, listed=listed, want=want: dict(det(m), fmt=fmt, printed=listed, expected=want))
    obs = w.observable()
    obs["census"] = cen
    obs["v1"] = reps["v1"].stream.getvalue().split("Took")[0]
    return obs


def h_summary_kernel(sx):
    """Stage 2: statuses are symbolic, element statuses come from the real compute_status."""
    import behave.model as model
    from behave.model_core import Status as S
    from vlib.statusspec import Spec
    S._sx_str_eq = True
    sp = Spec(S)
    n = sx.params["n"]
    sts = [sx.enum(S, "st%d" % i, sp.STEP_DOM) for i in range(n)]
    steps = [model.Step("k.feature", 10 + i, u"Given", "given", u"s%d" % i) for i in range(n)]
    for st, v in zip(steps, sts):
        st.status = v
    half = max(1, n // 2)
    sc1 = model.Scenario("k.feature", 3, u"Scenario", u"A", steps=steps[:half])
    sc2 = model.Scenario("k.feature", 6, u"Scenario", u"B", steps=steps[half:] or [model.Step("k.feature", 9, u"Given", "given", u"x")])
    outline = model.ScenarioOutline("k.feature", 20, u"Scenario Outline", u"O")
    row = model.Scenario("k.feature", 23, u"Scenario Outline", u"O -- @1.1", steps=[model.Step("k.feature", 21, u"Given", "given", u"r")])
    row.steps[0].status = sx.enum(S, "rowstep", [S.passed, S.failed, S.untested, S.skipped])
    outline._scenarios = [row]
    feature = model.Feature("k.feature", 1, u"Feature", u"F", scenarios=[sc1])
    rule = model.Rule("k.feature", 5, u"Rule", u"R", scenarios=[sc2])
    rule.add_scenario(outline)
    feature.add_rule(rule)
    sc1.hook_failed = sx.bool("hook_sc1")
    rule.hook_failed = sx.bool("hook_rule")
    from vlib.world import base_config
    cfg = base_config(("--no-summary",))
    reps = attach_reporters(cfg)
    # examples tables are not needed: _scenarios is prebuilt; `.scenarios` must not rebuild
    for r in reps.values():
        r.feature(feature)
    for r in reps.values():
        r.end()
    compare(sx, reps, [feature], lambda m: {"steps": [sx.eval(v, m) if m is not None else v.name for v in sts]})
    return {"feature": feature.status.name, "steps": [s.status.name for s in steps]}


REACH = ["C14.count==census(v1)", "C14.count==census(v1B)", "C14.count==census(v3)", "C14.collector-count==census",
         "C14.failing-list==failed-scenarios"]


def jobs(tier, seed):
    from props.c01 import _shapes, flag_shards
    js = []
    for name, (shapes, xo) in _shapes(tier).items():
        for fname, fopts in flag_shards(tier):
            js.append(Job("run.%s%s" % (name, fname), "props.c14:h_summary_run",
                          {"shapes": shapes, "opts": dict(fopts, **xo)},
                          reach=REACH[:4], min_paths=1 if fopts.get("dry_run") is True else 5, cost=5000, validate=100 if tier == "quick" else 300))
    js.append(Job("run.untested-outline", "props.c14:h_summary_run",
                  {"shapes": [F([S(1), O(1, [(2, [])])]), F([O(1, [(1, [])]), S(1)])],
                   "opts": {"stop": "sym", "out_dom": {"*": [0, 2]}}},
                  reach=REACH, min_paths=10, cost=4000, validate=100))
    js.append(Job("run.same-names", "props.c14:h_summary_run",
                  {"shapes": [F([S(1, name="Login"), R([S(1, name="Login")])]), F([S(1, name="Login"), O(1, [(1, [])], name="Login")])],
                   "opts": {"out_dom": {"*": [0, 2]}, "undef": False}},
                  reach=REACH, min_paths=10, cost=4000, validate=60))
    js.append(Job("run.hookfault", "props.c14:h_summary_run",
                  {"shapes": [F([S(1, tags=["t1"]), R([O(1, [(2, [])])], tags=["t2"])], tags=["t0"])],
                   "opts": {"hooks": True, "fault": True, "stop": "sym", "out_dom": {"*": [0, 1]}}},
                  reach=REACH, min_paths=20, cost=6000, validate=100))
    # Ctrl-C inside a hook: the run is aborted, yet every loaded feature is still accounted for
    js.append(Job("run.hook-kbdint", "props.c14:h_summary_run",
                  {"shapes": [F([S(1), S(1)]), F([S(1)]), F([R([S(1)])])],
                   "opts": {"hooks": True, "fault": True, "fault_kbd": True, "out_dom": {"*": [0, 1]}, "undef": False}},
                  reach=REACH[:4], min_paths=20, cost=6000, validate=100))
    js.append(Job("run.select", "props.c14:h_summary_run",
                  {"shapes": [F([S(1), O(1, [(1, []), (1, [])]), R([S(1)])])],
                   "opts": {"select": True, "dry_run": "sym", "out_dom": {"*": [0, 1]}}},
                  reach=REACH, min_paths=20, cost=6000, validate=100))
    js.append(Job("kernel", "props.c14:h_summary_kernel", {"n": 2 if tier == "quick" else 3},
                  reach=REACH, min_paths=100, cost=9000, validate=100, closure=False))
    return js
