"""C09 - tag selection with inheritance selects exactly the matching scenarios."""
from vlib.runner import Job
from vlib.shapes import F, S, O, R
from vlib.stage1 import build_world
from vlib.runspec import runspec

CALL_PROFILE = ["cucumber_tag_expressions.model", "behave.tag_expression.v1", "behave.tag_expression.model"]

META = {
    "functions": ["behave.model_core.TagAndStatusStatement.effective_tags/should_run_with_tags", "behave.model.ScenarioOutline.effective_tags/should_run_with_tags",
                  "behave.model.ScenarioContainer.should_run/should_run_with_tags", "behave.model.Scenario.should_run/run (not-selected branch)",
                  "behave.model.ScenarioOutlineBuilder.make_row_tags/make_scenario_for", "behave.tag_expression.* (real expression objects, both dialects)",
                  "behave.runner.ModelRunner.run_model/run_hook"],
    "bounds": {
        "quick": "4 shapes (plain scenarios; rule; outline with two examples blocks and a parametrised tag; rule+outline), candidate tags {a, b, ab} "
                 "at feature/rule/scenario/outline/examples level with symbolic presence (one z3 Boolean per element x tag), 16 tag expressions "
                 "(v2 incl. negation/wildcards, v1 lists, auto-detect), outcomes {pass, fail}, show_skipped and dry-run symbolic",
        "thorough": "9 shapes (the three larger ones without the four three-tag expressions), 28 expressions, outcomes {pass, fail, exception, skip-scenario}",
    },
    "outside": ["tag names outside the candidate set", "name/location selection (C10)"],
    "assumptions": ["tags are written on every element as provenance-coded names 't__element'; the wrapper around the REAL tag expression maps them to "
                    "a symbolic tag set whose membership is the presence Boolean (inheritance itself is behave's real effective_tags code)"],
    "leverage": "data-symbolic: tag presence per element is a z3 Boolean; the selection decision of each scenario is checked against the expression's formula by the solver",
}

EXPRS_Q = [
    ("a", ["lit", "a"], "v2"), ("not a", ["not", ["lit", "a"]], "v2"), ("a and b", ["and", ["lit", "a"], ["lit", "b"]], "v2"),
    ("a or b", ["or", ["lit", "a"], ["lit", "b"]], "v2"), ("not a and b", ["and", ["not", ["lit", "a"]], ["lit", "b"]], "auto"),
    ("(a or b) and not ab", ["and", ["or", ["lit", "a"], ["lit", "b"]], ["not", ["lit", "ab"]]], "v2"),
    ("a*", ["wild", "a*"], "v2"), ("not a*", ["not", ["wild", "a*"]], "auto"), ("?b or p1", ["or", ["wild", "?b"], ["lit", "p1"]], "v2"),
    ("p* and not a", ["and", ["wild", "p*"], ["not", ["lit", "a"]]], "v2"),
    (["a"], ["lit", "a"], "v1"), (["-a"], ["not", ["lit", "a"]], "v1"), (["a,b"], ["or", ["lit", "a"], ["lit", "b"]], "v1"),
    (["a", "~b"], ["and", ["lit", "a"], ["not", ["lit", "b"]]], "auto"), ("~@a @b", ["and", ["not", ["lit", "a"]], ["lit", "b"]], "auto"),
    ("-a,b ab", ["and", ["or", ["not", ["lit", "a"]], ["lit", "b"]], ["lit", "ab"]], "v1"),
    # tag names that contain a v2 keyword as a substring (dialect detection must look at whole words)
    ("@a,@band", ["or", ["lit", "a"], ["lit", "band"]], "auto", ["a", "b", "band"]),
    ("nor,b", ["or", ["lit", "nor"], ["lit", "b"]], "auto", ["nor", "b", "ab"]),
    # several --tags options in the new dialect are AND-ed as wholes (one of them has a top-level "or" between parenthesised operands)
    (["(a) or (b)", "not ab"], ["and", ["or", ["lit", "a"], ["lit", "b"]], ["not", ["lit", "ab"]]], "v2"),
]
EXPRS_T = EXPRS_Q + [
    ("not (a or b)", ["not", ["or", ["lit", "a"], ["lit", "b"]]], "v2"), ("not not a", ["not", ["not", ["lit", "a"]]], "v2"),
    ("a and b and ab", ["and", ["lit", "a"], ["lit", "b"], ["lit", "ab"]], "v2"), ("[ab]", ["wild", "[ab]"], "v2"),
    ("a or (b and not ab)", ["or", ["lit", "a"], ["and", ["lit", "b"], ["not", ["lit", "ab"]]]], "auto"),
    ("p1 or not p*", ["or", ["lit", "p1"], ["not", ["wild", "p*"]]], "v2"), (["a,-b", "ab"], ["and", ["or", ["lit", "a"], ["not", ["lit", "b"]]], ["lit", "ab"]], "v1"),
    ("@a", ["lit", "a"], "auto"), ("", ["true"], "auto"), ("*", ["wild", "*"], "v2"),
]


def h_select(sx):
    w, flags = build_world(sx, {"hooks": True, "fault": False})
    w.config.show_skipped = sx.bool("show_skipped")
    w.run()
    sx.check(w.escaped is None, "C09.no-exception", detail=lambda m: repr(w.escaped))
    if w.escaped is not None:
        return {"escaped": repr(w.escaped)}
    ex = runspec(w, flags)
    te = w.opts["tag_expr"]

    def det(m):
        has = {"%s:%s" % k: (sx.eval(v, m) if m is not None else bool(v)) for k, v in sorted(w._has.items())}
        return {"expr": te["text"], "present": [k for k, v in has.items() if v], "selected_expected": ex.selected,
                "status": w.status_table(), "steps": w.step_status_table(), "calls": w.calls,
                "flags": {k: (sx.eval(v, m) if m is not None else bool(v)) for k, v in flags.items()}}
    calls = [tuple(c) for c in w.calls]
    sx.check(calls == ex.calls, "C09.executed-scenarios==matching-scenarios(call-log)", detail=lambda m: dict(det(m), expected_calls=ex.calls))
    real = w.step_status_table()
    sx.check(real == ex.steps, "C09.step-statuses(selected run, others skipped)", detail=lambda m: dict(det(m), expected=ex.steps))
    st = w.status_table()
    for e in w.scenario_elems():
        if e.eid in ex.reached and not ex.selected.get(e.eid, True):
            sx.check(st[e.eid] == "skipped", "C09.deselected-scenario-is-skipped", detail=lambda m, e=e: dict(det(m), sid=e.eid))
            sx.check(not any(a is not None and (a == e.eid or str(a).startswith(e.eid + "/")) for _, a in w.hooklog),
                     "C09.no-hooks-for-deselected-scenario", detail=lambda m, e=e: dict(det(m), sid=e.eid, hooks=w.hooklog))
    for c in w.elems(("feature", "rule", "outline")):
        leaves = c.scenarios()
        if not leaves or not all(s.eid in ex.reached for s in leaves):
            continue
        nsel = [s for s in leaves if ex.selected.get(s.eid)]
        if not nsel:
            sx.check(st[c.eid] == "skipped", "C09.container-without-selected-scenario-is-skipped", detail=lambda m, c=c: dict(det(m), elem=c.eid))
        elif not flags["dry_run"] and any(st[s.eid] != "skipped" for s in nsel):
            # (a selected scenario may still skip itself at run time: outcome 5 of the thorough domain)
            sx.check(st[c.eid] != "skipped", "C09.container-with-executed-scenario-not-skipped", detail=lambda m, c=c: dict(det(m), elem=c.eid))
    return w.observable()


REACH = ["C09.executed-scenarios==matching-scenarios(call-log)", "C09.step-statuses(selected run, others skipped)",
         "C09.deselected-scenario-is-skipped", "C09.container-without-selected-scenario-is-skipped"]


def h_wip_mode(sx):
    """--wip restricts the run to @wip scenarios IN ADDITION to whatever --tags selects (the real Configuration builds the
    expression; tag presence of the element is decided per path)."""
    from behave.configuration import Configuration
    k = sx.choice("tags_option", [0, 1, 2, 3])
    k = k if isinstance(k, int) else k.concretize()
    extra, f = [([], lambda a, b: True), (["--tags=@a"], lambda a, b: a), (["--tags=@a", "--tags=-@b"], lambda a, b: a and not b),
                (["--tags=@a,@b"], lambda a, b: a or b)][k]
    has = {t: bool(sx.bool("has:%s" % t)) for t in ("a", "b", "wip")}
    tags = [t for t, v in has.items() if v]
    cfg = Configuration(["--wip"] + extra, load_config=False)
    got = bool(cfg.tag_expression.check(tags))
    want = bool(has["wip"] and f(has["a"], has["b"]))
    sx.check(got == want, "C09.wip-mode-adds-the-wip-restriction", detail={"args": ["--wip"] + extra, "tags": tags, "selected": got, "expected": want})
    return {"args": extra, "tags": tags, "selected": got}


def jobs(tier, seed):
    js = []
    shapes = {
        "plain": [F([S(1), S(1)])],
        "rule": [F([S(1), R([S(1)])])],
        "outline": [F([O(1, [(1, []), (1, [])], tags=["p<examples.index>"]), S(1)])],      # rows tagged p1 / p2
        "rule-outline": [F([R([O(1, [(2, [])], tags=["p<x>"])])])],
        "outline-untagged": [F([O(1, [(1, []), (1, [])], noptags=True)])],
        "stepless": [F([S(0), S(1), R([S(0)])])],       # scenarios without any step (own or background)
        "undef-steps": [F([S(2), S(1)])],            # steps may lack a definition (also in de-selected scenarios, also in dry-run)
        "same-names": [F([S(1, name="Pay the order"), S(1, name="Pay the order"), R([S(1, name="Pay the order")])])],
    }
    if tier == "thorough":
        shapes.update({
            "2rules": [F([S(1), R([S(1)]), R([S(1), S(1)])])],
            "2feat": [F([S(1)]), F([R([S(1)])])],
            "outline2": [F([S(1), O(2, [(2, []), (1, [])], tags=["p<x>"])], bg=1)],
        })
    js.append(Job("wip-mode", "props.c09:h_wip_mode", {}, reach=["C09.wip-mode-adds-the-wip-restriction"], min_paths=16, cost=10,
                  validate="all", closure=False))
    exprs = EXPRS_Q if tier == "quick" else EXPRS_T
    for sname, sh in shapes.items():
        # the three larger thorough-only shapes keep the quick outcome domain (sizing: 37 min -> about 12)
        dom = [0, 1] if tier == "quick" or sname in ("2rules", "2feat", "outline2") else [0, 5]
        for i, ex in enumerate(exprs):
            text, tree, proto = ex[:3]
            names = ex[3] if len(ex) > 3 else ["a", "b", "ab"]
            if sname in ("outline-untagged", "stepless", "same-names", "undef-steps") and tier == "quick" and i not in (0, 1, 3, 6, 11, 13, 18):
                continue
            if tier == "quick" and i == 18 and sname not in ("plain", "rule", "stepless"):
                continue        # (quick tier: the three-tag list expression on three small shapes)
            if sname in ("2rules", "2feat", "outline2") and i in (5, 15, 18, 25, 28):
                continue        # three-tag expressions on the larger shapes exceed the 600 s job budget (stated bound)
            js.append(Job("sel.%s.e%02d" % (sname, i), "props.c09:h_select",
                          {"shapes": sh, "opts": {"ptags": names, "tag_universe": names,
                                                  "tag_expr": {"text": text, "tree": tree, "protocol": proto},
                                                  "dry_run": "sym", "out_dom": {"*": dom}, "undef": sname == "undef-steps",
                                                  # (these two shapes are written with every tag list spread over two lines)
                                                  "tag_lines": sname in ("rule", "outline2")}},
                          reach=REACH[:2], min_paths=4, cost=100, validate=25 if tier == "quick" else 200, closure=False))
    return js
